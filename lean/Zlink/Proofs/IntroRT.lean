import Zlink.Model.Introspect
import Zlink.Proofs.IdlIfaceRT
/-! C16, last sentence ("an interface assembled from derived descriptions renders to text that parses back
    to an equal description"), as a theorem: whatever the derives produce for a module whose Rust names are
    legal Varlink names is a well-formed description in the sense of C14's round-trip theorem. The two
    exclusions are stated as decidable conditions on the declarations: no documented enum variant (the
    listed finding) and no `Option` directly around an `Option` (also through transparent wrappers): `??T`
    is not Varlink. -/
namespace Introspect
open Idl SpecIdl

/-- what the impl for a one-parameter constructor does, by the table of the current source -/
def kindOf (c : In) : Option Kind := (lookupT c Gen.introCtors).bind kindOfText

/-- the description of this type expression is an optional type -/
def isOptRT : RT → Bool
  | .app c t => match kindOf c with
    | some .optional => true
    | some .transparent => isOptRT t
    | _ => false
  | _ => false

/-- no optional of an optional, also not through transparent wrappers (`Option<Box<Option<T>>>`) -/
def rtOK : RT → Bool
  | .app c t => rtOK t && !(kindOf c == some .optional && isOptRT t)
  | _ => true

/-- a doc line is one line (no line break of either kind) -/
def docOK (d : In) : Bool := !d.contains 10 && !d.contains 13

def fieldDOK (f : FieldD) : Bool := fieldNameOK f.name && rtOK f.ty && f.docs.all docOK

def varOK : VarD → Bool
  | .unit n docs => typeNameOK n && docs.all docOK
  | .named n docs fs => typeNameOK n && docs.all docOK && fs.all fieldDOK
  | .tuple n docs t => typeNameOK n && docs.all docOK && rtOK t

/-- the Rust names are legal Varlink names, doc lines are lines, enums have variants, and the two
    exclusions: no documented enum variant, no `??` -/
def declOK : TypeD → Bool
  | .strct _ n docs fs => typeNameOK n && docs.all docOK && fs.all fieldDOK
  | .enm _ n docs vs => typeNameOK n && docs.all docOK && !vs.isEmpty && vs.all (fun v => fieldNameOK v.1 && v.2.isEmpty)
  | .errs _ vs => vs.all varOK

/-! ### doc lines become comments the parser can produce -/

theorem dropWhile_head (p : UInt8 → Bool) : ∀ (l : In) (a : UInt8) (b : In), l.dropWhile p = a :: b → p a = false
  | [], _, _, h => by simp at h
  | x :: t, a, b, h => by
    rw [List.dropWhile_cons] at h
    by_cases hx : p x = true
    · rw [if_pos hx] at h; exact dropWhile_head p t a b h
    · rw [if_neg hx] at h
      have := (List.cons.inj h).1
      subst this; simpa using hx

theorem mem_dropWhile {p : UInt8 → Bool} : ∀ {l : In} {x : UInt8}, x ∈ l.dropWhile p → x ∈ l
  | [], _, h => by simp at h
  | y :: t, x, h => by
    rw [List.dropWhile_cons] at h
    by_cases hy : p y = true
    · rw [if_pos hy] at h; exact List.mem_cons_of_mem _ (mem_dropWhile h)
    · rw [if_neg hy] at h; exact h

/-- dropping trailing elements leaves a prefix -/
theorem dropTrailing_prefix (p : UInt8 → Bool) (x : In) :
    ∃ s, x = (x.reverse.dropWhile p).reverse ++ s := by
  refine ⟨(x.reverse.takeWhile p).reverse, ?_⟩
  rw [← List.reverse_append, List.takeWhile_append_dropWhile, List.reverse_reverse]

theorem trimDoc_commentOK (d : In) (h : docOK d = true) : commentOK (trimDoc d) = true := by
  unfold trimDoc
  generalize hx : d.dropWhile isBlank = x
  obtain ⟨s, hs⟩ := dropTrailing_prefix isBlank x
  generalize hy : (x.reverse.dropWhile isBlank).reverse = y at hs
  have hmem : ∀ b ∈ y, b ∈ d := by
    intro b hb
    have : b ∈ x := by rw [hs]; exact List.mem_append_left _ hb
    rw [← hx] at this
    exact mem_dropWhile this
  have hno : ∀ (e : UInt8), d.contains e = false → y.contains e = false := by
    intro e he
    cases hc : y.contains e with
    | false => rfl
    | true =>
      exfalso
      have : e ∈ y := by simpa using hc
      have := hmem _ this
      have hd : d.contains e = true := by simpa using this
      rw [he] at hd; cases hd
  simp only [docOK, Bool.and_eq_true, Bool.not_eq_true'] at h
  have h10 := hno 10 h.1
  have h13 := hno 13 h.2
  unfold commentOK
  rw [h10, h13]
  cases y with
  | nil => rfl
  | cons a t =>
    have hxa : ∃ b, x = a :: b := ⟨t ++ s, by rw [hs]; rfl⟩
    obtain ⟨b, hb⟩ := hxa
    have hna := dropWhile_head isBlank d a b (by rw [hx, hb])
    have h32 : a ≠ 32 := by intro e; subst e; simp [isBlank] at hna
    have h9 : a ≠ 9 := by intro e; subst e; simp [isBlank] at hna
    simp only [Bool.not_false, Bool.true_and]
    split
    · rename_i heq; exact absurd (List.cons.inj heq).1 h32
    · rename_i heq; exact absurd (List.cons.inj heq).1 h9
    · rfl

theorem trimDocs_commentOK (ds : List In) (h : ds.all docOK = true) : (trimDocs ds).all commentOK = true := by
  unfold trimDocs
  rw [List.all_map]
  rw [List.all_eq_true] at h ⊢
  intro d hd
  exact trimDoc_commentOK d (h d hd)

/-! ### types -/

/-- what earlier declarations contribute: well-formed, without commented inline-enum variants, never optional -/
def PrevOK (prev : List Ty) : Prop := ∀ p ∈ prev, tyOK p = true ∧ noVC p = true ∧ isOpt p = false

theorem tyOK_optional (t : Ty) (h : isOpt t = false) : tyOK (.optional t) = tyOK t := by
  cases t <;> simp [tyOK, isOpt] at *

theorem idlType_ok (prev : List Ty) (hp : PrevOK prev) :
    ∀ (t : RT) (ty : Ty), rtOK t = true → idlType prev t = some ty →
      tyOK ty = true ∧ noVC ty = true ∧ isOpt ty = isOptRT t
  | .atom n, ty, _, h => by
    unfold idlType at h
    cases hl : (lookupT n Gen.introAtoms).bind primOfVariant with
    | none => simp [hl] at h
    | some p =>
      simp only [hl, Option.map_some, Option.some.injEq] at h
      subst h
      cases p <;> simp [Prim.ty, tyOK, fieldsTyOK, noVC, noVCF, isOpt, isOptRT]
  | .ref i, ty, _, h => by
    unfold idlType at h
    have hm : ty ∈ prev := List.mem_of_getElem? h
    obtain ⟨a, b, c⟩ := hp ty hm
    exact ⟨a, b, by rw [c]; rfl⟩
  | .app c t, ty, hok, h => by
    unfold idlType at h
    simp only [rtOK, Bool.and_eq_true, Bool.not_eq_eq_eq_not, Bool.not_true] at hok
    obtain ⟨hokt, hnn⟩ := hok
    have hk : kindOf c = (lookupT c Gen.introCtors).bind kindOfText := rfl
    cases hkc : (lookupT c Gen.introCtors).bind kindOfText with
    | none => simp [hkc] at h
    | some k =>
      cases hit : idlType prev t with
      | none => simp [hkc, hit] at h
      | some x =>
        simp only [hkc, hit, Option.some.injEq] at h
        subst h
        obtain ⟨i1, i2, i3⟩ := idlType_ok prev hp t x hokt hit
        rw [hk, hkc] at hnn
        cases k with
        | optional =>
          have hno : isOptRT t = false := by simpa using hnn
          have hxo : isOpt x = false := by rw [i3, hno]
          refine ⟨by simp only [Kind.apply]; rw [tyOK_optional x hxo]; exact i1, by simpa [Kind.apply, noVC] using i2, ?_⟩
          simp [Kind.apply, isOpt, isOptRT, hk, hkc]
        | array => exact ⟨by simpa [Kind.apply, tyOK] using i1, by simpa [Kind.apply, noVC] using i2, by simp [Kind.apply, isOpt, isOptRT, hk, hkc]⟩
        | map => exact ⟨by simpa [Kind.apply, tyOK] using i1, by simpa [Kind.apply, noVC] using i2, by simp [Kind.apply, isOpt, isOptRT, hk, hkc]⟩
        | transparent => exact ⟨i1, i2, by simp [Kind.apply, isOptRT, hk, hkc, i3]⟩

theorem deriveFields_ok (prev : List Ty) (hp : PrevOK prev) :
    ∀ (fs : List FieldD) (out : List Field), fs.all fieldDOK = true → deriveFields prev fs = some out →
      fieldsTyOK out = true ∧ noVCF out = true
  | [], out, _, h => by
    simp only [deriveFields, Option.some.injEq] at h
    subst h; simp [fieldsTyOK, noVCF]
  | f :: r, out, hok, h => by
    unfold deriveFields at h
    simp only [List.all_cons, Bool.and_eq_true, fieldDOK] at hok
    obtain ⟨⟨⟨hn, hrt⟩, hd⟩, hr⟩ := hok
    cases hit : idlType prev f.ty with
    | none => simp [hit] at h
    | some t =>
      cases hdr : deriveFields prev r with
      | none => simp [hit, hdr] at h
      | some fs' =>
        simp only [hit, hdr, Option.some.injEq] at h
        subst h
        obtain ⟨a, b, _⟩ := idlType_ok prev hp f.ty t hrt hit
        obtain ⟨c, d⟩ := deriveFields_ok prev hp r fs' (by simpa [fieldDOK] using hr) hdr
        exact ⟨by simp [fieldsTyOK, hn, a, trimDocs_commentOK f.docs hd, c], by simp [noVCF, b, d]⟩

theorem enumVariants_ok (vs : List (In × List In)) (h : vs.all (fun v => fieldNameOK v.1 && v.2.isEmpty) = true) :
    (vs.map fun v => (v.1, trimDocs v.2)).all (fun v => fieldNameOK v.1 && v.2.all commentOK) = true ∧
    (vs.map fun v => (v.1, trimDocs v.2)).all (fun v => v.2.isEmpty) = true := by
  rw [List.all_map, List.all_map]
  rw [List.all_eq_true] at h
  constructor
  · rw [List.all_eq_true]
    intro v hv
    have := h v hv
    simp only [Bool.and_eq_true, List.isEmpty_iff] at this
    simp [this.1, this.2, trimDocs]
  · rw [List.all_eq_true]
    intro v hv
    have := h v hv
    simp only [Bool.and_eq_true, List.isEmpty_iff] at this
    simp [this.2, trimDocs]

theorem typeOf_ok (prev : List Ty) (hp : PrevOK prev) (d : TypeD) (hd : declOK d = true) (t : Ty)
    (h : typeOf prev d = some t) : tyOK t = true ∧ noVC t = true ∧ isOpt t = false := by
  cases d with
  | strct custom n docs fs =>
    simp only [declOK, Bool.and_eq_true] at hd
    obtain ⟨⟨hn, _⟩, hfs⟩ := hd
    cases custom with
    | true =>
      simp only [typeOf, Option.some.injEq] at h
      subst h; simp [tyOK, noVC, isOpt, hn]
    | false =>
      simp only [typeOf] at h
      cases hdf : deriveFields prev fs with
      | none => simp [hdf] at h
      | some out =>
        simp only [hdf, Option.map_some, Option.some.injEq] at h
        subst h
        obtain ⟨a, b⟩ := deriveFields_ok prev hp fs out hfs hdf
        simp [tyOK, noVC, isOpt, a, b]
  | enm custom n docs vs =>
    simp only [declOK, Bool.and_eq_true] at hd
    obtain ⟨⟨⟨hn, _⟩, hne⟩, hvs⟩ := hd
    obtain ⟨a, b⟩ := enumVariants_ok vs hvs
    cases custom with
    | true =>
      simp only [typeOf, Option.some.injEq] at h
      subst h; simp [tyOK, noVC, isOpt, hn]
    | false =>
      simp only [typeOf, Option.some.injEq] at h
      subst h
      have hne' : (vs.map fun v => (v.1, trimDocs v.2)).isEmpty = false := by
        cases vs <;> simp at hne ⊢
      simp only [tyOK, noVC, isOpt, hne', Bool.not_false, Bool.true_and, and_true]
      exact ⟨a, b⟩
  | errs n vs =>
    simp only [typeOf, Option.some.injEq] at h
    subst h; simp [tyOK, noVC, isOpt]

theorem typesOf_ok : ∀ (ds : List TypeD) (acc all : List Ty), (∀ d ∈ ds, declOK d = true) → PrevOK acc →
    typesOf ds acc = some all → PrevOK all
  | [], acc, all, _, hp, h => by
    simp only [typesOf, Option.some.injEq] at h
    subst h; exact hp
  | d :: r, acc, all, hds, hp, h => by
    unfold typesOf at h
    cases ht : typeOf acc d with
    | none => simp [ht] at h
    | some t =>
      simp only [ht] at h
      have := typeOf_ok acc hp d (hds d (by simp)) t ht
      apply typesOf_ok r (acc ++ [t]) all (fun x hx => hds x (by simp [hx])) ?_ h
      intro p hpm
      rcases List.mem_append.mp hpm with h1 | h1
      · exact hp p h1
      · simp at h1; subst h1; exact this

theorem prevOK_take (all : List Ty) (h : PrevOK all) (i : Nat) : PrevOK (all.take i) :=
  fun p hp => h p (List.mem_of_mem_take hp)

/-! ### custom types and errors -/

theorem customTypeOf_ok (prev : List Ty) (hp : PrevOK prev) (d : TypeD) (hd : declOK d = true) (c : CT)
    (h : customTypeOf prev d = some c) :
    ctOK c = true ∧ noVCCT c = true ∧ (match c with | .enm _ vs _ => vs.all (fun v => v.2.isEmpty) | _ => true) = true := by
  cases d with
  | strct custom n docs fs =>
    simp only [declOK, Bool.and_eq_true] at hd
    obtain ⟨⟨hn, hdocs⟩, hfs⟩ := hd
    cases custom with
    | false => simp [customTypeOf] at h
    | true =>
      simp only [customTypeOf] at h
      cases hdf : deriveFields prev fs with
      | none => simp [hdf] at h
      | some out =>
        simp only [hdf, Option.map_some, Option.some.injEq] at h
        subst h
        obtain ⟨a, b⟩ := deriveFields_ok prev hp fs out hfs hdf
        simp [ctOK, noVCCT, fieldsOK, hn, a, b, trimDocs_commentOK docs hdocs]
  | enm custom n docs vs =>
    simp only [declOK, Bool.and_eq_true] at hd
    obtain ⟨⟨⟨hn, hdocs⟩, hne⟩, hvs⟩ := hd
    obtain ⟨a, b⟩ := enumVariants_ok vs hvs
    cases custom with
    | false => simp [customTypeOf] at h
    | true =>
      simp only [customTypeOf, Option.some.injEq] at h
      subst h
      have hne' : (vs.map fun v => (v.1, trimDocs v.2)).isEmpty = false := by
        cases vs <;> simp at hne ⊢
      simp only [ctOK, noVCCT, hn, hne', Bool.not_false, Bool.true_and, a, trimDocs_commentOK docs hdocs, Bool.and_self, true_and]
      exact b
  | errs n vs => simp [customTypeOf] at h

theorem errOf_ok (prev : List Ty) (hp : PrevOK prev) (v : VarD) (hv : varOK v = true) (e : Err)
    (h : errOf prev v = some e) : errOK e = true ∧ noVCErr e = true := by
  cases v with
  | unit n docs =>
    simp only [varOK, Bool.and_eq_true] at hv
    simp only [errOf, Option.some.injEq] at h
    subst h
    simp [errOK, noVCErr, fieldsOK, fieldsTyOK, noVCF, hv.1, trimDocs_commentOK docs hv.2]
  | named n docs fs =>
    simp only [varOK, Bool.and_eq_true] at hv
    obtain ⟨⟨hn, hdocs⟩, hfs⟩ := hv
    simp only [errOf] at h
    cases hdf : deriveFields prev fs with
    | none => simp [hdf] at h
    | some out =>
      simp only [hdf, Option.map_some, Option.some.injEq] at h
      subst h
      obtain ⟨a, b⟩ := deriveFields_ok prev hp fs out hfs hdf
      simp [errOK, noVCErr, fieldsOK, hn, a, b, trimDocs_commentOK docs hdocs]
  | tuple n docs t =>
    simp only [varOK, Bool.and_eq_true] at hv
    obtain ⟨⟨hn, hdocs⟩, hrt⟩ := hv
    simp only [errOf] at h
    cases hit : idlType prev t with
    | none => simp [hit] at h
    | some ty =>
      obtain ⟨a, b, _⟩ := idlType_ok prev hp t ty hrt hit
      cases ty with
      | struct fs =>
        simp only [hit, Option.some.injEq] at h
        subst h
        simp only [tyOK] at a
        simp only [noVC] at b
        simp [errOK, noVCErr, fieldsOK, hn, a, b, trimDocs_commentOK docs hdocs]
      | _ => simp [hit] at h

theorem errsOf_ok (prev : List Ty) (hp : PrevOK prev) :
    ∀ (vs : List VarD) (es : List Err), vs.all varOK = true → errsOf prev vs = some es →
      es.all errOK = true ∧ es.all noVCErr = true
  | [], es, _, h => by
    simp only [errsOf, Option.some.injEq] at h
    subst h; simp
  | v :: r, es, hok, h => by
    unfold errsOf at h
    simp only [List.all_cons, Bool.and_eq_true] at hok
    cases he : errOf prev v with
    | none => simp [he] at h
    | some e =>
      cases hr : errsOf prev r with
      | none => simp [he, hr] at h
      | some es' =>
        simp only [he, hr, Option.some.injEq] at h
        subst h
        obtain ⟨a, b⟩ := errOf_ok prev hp v hok.1 e he
        obtain ⟨c, d⟩ := errsOf_ok prev hp r es' hok.2 hr
        simp [a, b, c, d]

def enmPlain : CT → Bool
  | .enm _ vs _ => vs.all (fun v => v.2.isEmpty)
  | _ => true

theorem go_ok (all : List Ty) (hp : PrevOK all) :
    ∀ (ds : List TypeD) (i : Nat) (cts : List CT) (es : List Err), (∀ d ∈ ds, declOK d = true) →
      assemble.go all i ds = some (cts, es) →
      cts.all ctOK = true ∧ cts.all noVCCT = true ∧ cts.all enmPlain = true ∧ es.all errOK = true ∧ es.all noVCErr = true
  | [], i, cts, es, _, h => by
    simp only [assemble.go, Option.some.injEq, Prod.mk.injEq] at h
    obtain ⟨rfl, rfl⟩ := h; simp
  | d :: r, i, cts, es, hds, h => by
    rw [assemble.go] at h
    cases hg : assemble.go all (i + 1) r with
    | none => simp [hg] at h
    | some p =>
      obtain ⟨cts', es'⟩ := p
      obtain ⟨a1, a2, a3, a4, a5⟩ := go_ok all hp r (i + 1) cts' es' (fun x hx => hds x (by simp [hx])) hg
      have hd := hds d (by simp)
      have hpt := prevOK_take all hp i
      simp only [hg] at h
      cases d with
      | strct custom n docs fs =>
        cases custom with
        | true =>
          simp only [] at h
          cases hc : customTypeOf (all.take i) (.strct true n docs fs) with
          | none => simp [hc] at h
          | some c =>
            simp only [hc, Option.map_some, Option.some.injEq, Prod.mk.injEq] at h
            obtain ⟨rfl, rfl⟩ := h
            obtain ⟨b1, b2, b3⟩ := customTypeOf_ok _ hpt _ hd c hc
            have b3' : enmPlain c = true := by cases c <;> simpa [enmPlain] using b3
            simp [a1, a2, a3, a4, a5, b1, b2, b3']
        | false =>
          simp only [Option.some.injEq, Prod.mk.injEq] at h
          obtain ⟨rfl, rfl⟩ := h
          exact ⟨a1, a2, a3, a4, a5⟩
      | enm custom n docs vs =>
        cases custom with
        | true =>
          simp only [] at h
          cases hc : customTypeOf (all.take i) (.enm true n docs vs) with
          | none => simp [hc] at h
          | some c =>
            simp only [hc, Option.map_some, Option.some.injEq, Prod.mk.injEq] at h
            obtain ⟨rfl, rfl⟩ := h
            obtain ⟨b1, b2, b3⟩ := customTypeOf_ok _ hpt _ hd c hc
            have b3' : enmPlain c = true := by cases c <;> simpa [enmPlain] using b3
            simp [a1, a2, a3, a4, a5, b1, b2, b3']
        | false =>
          simp only [Option.some.injEq, Prod.mk.injEq] at h
          obtain ⟨rfl, rfl⟩ := h
          exact ⟨a1, a2, a3, a4, a5⟩
      | errs n vs =>
        simp only [] at h
        cases he : errsOf (all.take i) vs with
        | none => simp [he] at h
        | some e =>
          simp only [he, Option.map_some, Option.some.injEq, Prod.mk.injEq] at h
          obtain ⟨rfl, rfl⟩ := h
          obtain ⟨b1, b2⟩ := errsOf_ok _ hpt vs e (by simpa [declOK] using hd) he
          simp [a1, a2, a3, a4, a5, b1, b2, List.all_append]

theorem ifaceOK_of_parts (a : Iface) (h1 : ifaceNameOK a.name = true) (h2 : a.cs.all commentOK = true)
    (h3 : a.types.all ctOK = true) (h4 : a.methods.all methodOK = true) (h5 : a.errors.all errOK = true) :
    ifaceOK a = true := by
  simp only [ifaceOK, Bool.and_eq_true]
  refine ⟨⟨⟨⟨h1, h2⟩, ?_⟩, ?_⟩, ?_⟩
  · rw [List.all_eq_true] at h3 ⊢
    intro t ht
    have := h3 t ht
    cases t <;> simpa [ctOK] using this
  · rw [List.all_eq_true] at h4 ⊢
    intro m hm
    simpa [methodOK] using h4 m hm
  · rw [List.all_eq_true] at h5 ⊢
    intro e he
    simpa [errOK] using h5 e he

/-- **What the derives assemble is a well-formed description** (in the sense of the round-trip theorem
    of C14), without commented variants anywhere. -/
theorem assemble_ok (name : In) (ds : List TypeD) (a : Iface) (hn : ifaceNameOK name = true)
    (hds : ∀ d ∈ ds, declOK d = true) (h : assemble name ds = some a) :
    ifaceOK a = true ∧ noVCI a = true ∧ a.types.all enmPlain = true := by
  unfold assemble at h
  cases ht : typesOf ds [] with
  | none => simp [ht] at h
  | some all =>
    simp only [ht] at h
    have hp : PrevOK all := typesOf_ok ds [] all hds (fun p hp => by simp at hp) ht
    cases hg : assemble.go all 0 ds with
    | none => simp [hg] at h
    | some p =>
      obtain ⟨cts, es⟩ := p
      simp only [hg, Option.map_some, Option.some.injEq] at h
      subst h
      obtain ⟨a1, a2, a3, a4, a5⟩ := go_ok all hp ds 0 cts es hds hg
      exact ⟨ifaceOK_of_parts _ hn (by simp) a1 (by simp) a4, by simp [noVCI, a2, a5], a3⟩

end Introspect
