import Zlink.Model.JsonStr
import Zlink.Gen.Consts
/-! What zlink's string escaping writes, a JSON string reader reads back: `unescape (escape s) = s` for
    every byte string `s`, over the escape table **extracted from the current source**. -/
namespace JsonStr
open Ser

/-- shape of the escape of one byte, checked against the reader on all 256 bytes of the extracted table -/
def shapeOK (n : Nat) : Bool :=
  let b := UInt8.ofNat n
  match escByte tbl b with
  | [x] => x == b && !(x < 32 || x == 34 || x == 92)
  | [a, e] => a == 92 && e != 117 && simpleEsc e == some b
  | [a, u, p, q, r, s] => a == 92 && u == 117 && step [92, 117, p, q, r, s] == some (b, [])
  | _ => false

theorem shape_all (n : Nat) (hn : n < 256) : shapeOK n = true := by
  revert n
  decide +kernel

theorem step_raw (x : Byte) (rest : List Byte) (h : (x < 32 || x == 34 || x == 92) = false) :
    step (x :: rest) = some (x, rest) := by
  have h92 : x ≠ 92 := by intro e; subst e; simp at h
  unfold step
  split
  · rename_i heq; simp at heq; exact absurd heq.1 h92
  · rename_i heq; simp at heq; exact absurd heq.1 h92
  · rename_i heq; simp at heq; obtain ⟨rfl, rfl⟩ := heq; simp [h]
  · rename_i heq; simp at heq

theorem step_simple (e b : Byte) (rest : List Byte) (h1 : e ≠ 117) (h2 : simpleEsc e = some b) :
    step (92 :: e :: rest) = some (b, rest) := by
  unfold step
  split
  · rename_i heq; simp at heq; exact absurd heq.1 h1
  · rename_i heq; simp at heq; obtain ⟨rfl, rfl⟩ := heq; simp [h2]
  · exfalso; rename_i hA hB heq; simp at heq; obtain ⟨rfl, rfl⟩ := heq; exact hB _ _ rfl rfl
  · rename_i heq; simp at heq

theorem step_hex (p q r s b : Byte) (rest : List Byte) (h : step [92, 117, p, q, r, s] = some (b, [])) :
    step (92 :: 117 :: p :: q :: r :: s :: rest) = some (b, rest) := by
  unfold step at h ⊢
  simp only [] at h ⊢
  cases hp : hexVal p <;> cases hq : hexVal q <;> cases hr : hexVal r <;> cases hs : hexVal s <;>
    simp only [hp, hq, hr, hs] at h ⊢ <;> try (simp at h; done)
  split at h
  · rename_i hlt; rw [if_pos hlt]; simp at h; simp [h]
  · simp at h

theorem step_escByte (b : Byte) (rest : List Byte) : step (escByte tbl b ++ rest) = some (b, rest) := by
  have h := shape_all b.toNat (UInt8.toNat_lt b)
  have hb : UInt8.ofNat b.toNat = b := UInt8.ofNat_toNat
  unfold shapeOK at h
  simp only [hb] at h
  generalize escByte tbl b = e at h
  cases e with
  | nil => simp at h
  | cons x1 l1 =>
    cases l1 with
    | nil =>
      simp only [Bool.and_eq_true, beq_iff_eq, Bool.not_eq_true'] at h
      obtain ⟨rfl, h2⟩ := h
      exact step_raw x1 rest h2
    | cons x2 l2 =>
      cases l2 with
      | nil =>
        simp only [Bool.and_eq_true, beq_iff_eq, bne_iff_ne, ne_eq] at h
        obtain ⟨⟨rfl, h1⟩, h2⟩ := h
        exact step_simple x2 b rest h1 h2
      | cons x3 l3 =>
        cases l3 with
        | nil => simp at h
        | cons x4 l4 =>
          cases l4 with
          | nil => simp at h
          | cons x5 l5 =>
            cases l5 with
            | nil => simp at h
            | cons x6 l6 =>
              cases l6 with
              | nil =>
                simp only [Bool.and_eq_true, beq_iff_eq] at h
                obtain ⟨⟨rfl, rfl⟩, h3⟩ := h
                exact step_hex x3 x4 x5 x6 b rest h3
              | cons x7 l7 => simp at h

theorem unescapeN_succ_cons (f : Nat) (x : Byte) (xs : List Byte) :
    unescapeN (f + 1) (x :: xs) = match step (x :: xs) with
      | some (b, rest) => (unescapeN f rest).map (b :: ·)
      | none => none := rfl

theorem escByte_ne_nil (b : Byte) : escByte tbl b ≠ [] := by
  unfold escByte escapeSeq
  split
  · simp
  · simp only []; split <;> simp

theorem unescapeN_escape (s : List Byte) : ∀ f, (escape tbl s).length ≤ f → unescapeN f (escape tbl s) = some s := by
  induction s with
  | nil => intro f _; cases f <;> simp [escape, unescapeN]
  | cons b t ih =>
    intro f hf
    have e : escape tbl (b :: t) = escByte tbl b ++ escape tbl t := by simp [escape, List.flatMap_cons]
    rw [e] at hf ⊢
    have hne := escByte_ne_nil b
    have hlen : 1 ≤ (escByte tbl b).length := by
      cases h : escByte tbl b with
      | nil => exact absurd h hne
      | cons _ _ => simp
    cases f with
    | zero => simp only [List.length_append] at hf; omega
    | succ f =>
      cases hl : escByte tbl b ++ escape tbl t with
      | nil => simp [hne] at hl
      | cons x xs =>
        rw [unescapeN_succ_cons, ← hl, step_escByte b (escape tbl t)]
        show Option.map (fun x => b :: x) (unescapeN f (escape tbl t)) = some (b :: t)
        rw [ih f (by simp only [List.length_append] at hf; omega)]
        simp

/-- **JSON string escaping round-trips** (every byte string, unbounded) -/
theorem unescape_escape (s : List Byte) : unescape (escape tbl s) = some s :=
  unescapeN_escape s _ (Nat.le_refl _)

theorem readQuoted_quoted (s : List Byte) : readQuoted (quoted tbl s) = some s := by
  have h1 : quoted tbl s = 34 :: (escape tbl s ++ [34]) := rfl
  have h2 : (escape tbl s ++ [34]).reverse = 34 :: (escape tbl s).reverse := by simp
  rw [h1]
  show (match (escape tbl s ++ [34]).reverse with
        | 34 :: r => unescape r.reverse
        | _ => none) = some s
  rw [h2]
  show unescape (escape tbl s).reverse.reverse = some s
  rw [List.reverse_reverse]
  exact unescape_escape s
end JsonStr
