import Zlink.Proofs.IdlTextSound1
/-! Soundness of the IDL parser at the level of the text, part 2: type expressions. `TyS t s` is the
    grammar of types as the parser reads it: layout (white space and comments, `GapC`) between the
    tokens of an inline enum and around `:` `,` `)` of an inline struct, white space only after `(` and
    after `,` of a struct (comments there belong to the next field), comment lines in front of fields.
    Whatever `varlink_type` accepts was such a text, completely consumed, denoting the returned type. -/
namespace Idl
open SpecIdl

/-- further variants of an inline enum: (layout `,` layout name)* -/
inductive VarsS : List (In × List In) → In → Prop
  | nil : VarsS [] []
  | cons {v vs g1 g2 s} : GapC g1 → GapC g2 → fieldNameOK v = true → VarsS vs s →
      VarsS ((v, []) :: vs) (g1 ++ 44 :: (g2 ++ (v ++ s)))

mutual
inductive TyS : Ty → In → Prop
  | bool : TyS .bool [98, 111, 111, 108]
  | int : TyS .int [105, 110, 116]
  | float : TyS .float [102, 108, 111, 97, 116]
  | string : TyS .string [115, 116, 114, 105, 110, 103]
  | object : TyS .object [111, 98, 106, 101, 99, 116]
  | optional {t s} : isOpt t = false → TyS t s → TyS (.optional t) (63 :: s)
  | array {t s} : TyS t s → TyS (.array t) (91 :: 93 :: s)
  | map {t s} : TyS t s → TyS (.map t) (([91, 115, 116, 114, 105, 110, 103, 93] : In) ++ s)
  | custom {n} : typeNameOK n = true → TyS (.custom n) n
  | enum {v vs s g0 g1} : GapC g0 → fieldNameOK v = true → VarsS vs s → GapC g1 →
      TyS (.enum ((v, []) :: vs)) (40 :: (g0 ++ (v ++ (s ++ (g1 ++ [41])))))
  | struct {fs w s g} : wsOnly w = true → FieldsS fs s → GapC g → TyS (.struct fs) (40 :: (w ++ (s ++ (g ++ [41]))))
inductive FieldS : Field → In → Prop
  | mk {n t cs sc st g1 g2} : CommentsS cs sc → fieldNameOK n = true → GapC g1 → GapC g2 → TyS t st →
      FieldS (n, t, cs) (sc ++ (n ++ (g1 ++ 58 :: (g2 ++ st))))
/-- `separated(0.., field, (ws, ",", whitespace_only))` -/
inductive FieldsS : List Field → In → Prop
  | nil : FieldsS [] []
  | cons {f fs s1 s2} : FieldS f s1 → FieldsMoreS fs s2 → FieldsS (f :: fs) (s1 ++ s2)
inductive FieldsMoreS : List Field → In → Prop
  | nil : FieldsMoreS [] []
  | cons {f fs g1 w2 s1 s2} : GapC g1 → wsOnly w2 = true → FieldS f s1 → FieldsMoreS fs s2 →
      FieldsMoreS (f :: fs) (g1 ++ 44 :: (w2 ++ (s1 ++ s2)))
end

-- `tyNE`: no inline enum without variants (the parser produces one only when it runs out of fuel)
mutual
def tyNE : Ty → Bool
  | .optional t => tyNE t
  | .array t => tyNE t
  | .map t => tyNE t
  | .enum vs => !vs.isEmpty
  | .struct fs => fieldsNE fs
  | _ => true
def fieldsNE : List (In × Ty × List In) → Bool
  | [] => true
  | (_, t, _) :: r => tyNE t && fieldsNE r
end

theorem fieldsNE_append (a b : List (In × Ty × List In)) : fieldsNE (a ++ b) = (fieldsNE a && fieldsNE b) := by
  induction a with
  | nil => simp [fieldsNE]
  | cons f r ih => obtain ⟨n, t, cs⟩ := f; simp only [List.cons_append, fieldsNE, ih, Bool.and_assoc]

theorem litB_split (p i r : In) (h : litB p i = .ok () r) : i = p ++ r := by
  unfold litB at h
  split at h
  · rename_i hp
    simp only [PR.ok.injEq, true_and] at h
    rw [← h]
    have := List.isPrefixOf_iff_prefix.mp hp
    obtain ⟨t, ht⟩ := this
    rw [← ht]; simp
  · cases h

theorem primitive_split (i : In) (t : Ty) (r : In) (h : primitive i = .ok t r) : ∃ s, i = s ++ r ∧ TyS t s := by
  unfold primitive at h
  have pre : ∀ (p : In), pfxB p i = true → i = p ++ i.drop p.length := by
    intro p hp
    obtain ⟨t, ht⟩ := List.isPrefixOf_iff_prefix.mp hp
    rw [← ht]; simp
  split at h
  · rename_i hp; cases h; exact ⟨_, pre _ hp, .bool⟩
  · split at h
    · rename_i hp; cases h; exact ⟨_, pre _ hp, .int⟩
    · split at h
      · rename_i hp; cases h; exact ⟨_, pre _ hp, .float⟩
      · split at h
        · rename_i hp; cases h; exact ⟨_, pre _ hp, .string⟩
        · split at h
          · rename_i hp; cases h; exact ⟨_, pre _ hp, .object⟩
          · cases h

/-- the `more` loop of `enum_type` -/
theorem enum_more_split : ∀ (n : Nat) (i : In) (acc : List In),
    ∃ vs s, (enumType.more n i acc).1 = acc ++ vs.map (·.1) ∧ i = s ++ (enumType.more n i acc).2 ∧ VarsS vs s := by
  intro n
  induction n with
  | zero => intro i acc; exact ⟨[], [], by simp [enumType.more], by simp [enumType.more], .nil⟩
  | succ n ih =>
    intro i acc
    rw [enumType.more]
    obtain ⟨g1, hg1, hG1⟩ := wsF_split i
    split
    · rename_i i2 hl
      obtain ⟨g2, hg2, hG2⟩ := wsF_split i2
      split
      · rename_i v r hv
        obtain ⟨hvok, hve⟩ := fieldName_sound _ _ _ hv
        obtain ⟨vs, s, h1, h2, h3⟩ := ih r (acc ++ [v])
        refine ⟨(v, []) :: vs, g1 ++ 44 :: (g2 ++ (v ++ s)), by simp [h1], ?_, .cons hG1 hG2 hvok h3⟩
        have e1 := litB_split _ _ _ hl
        conv => lhs; rw [hg1, e1, hg2, hve, h2]
        simp
      · exact ⟨[], [], by simp, by simp, .nil⟩
    · exact ⟨[], [], by simp, by simp, .nil⟩

def PostS (r : PR Ty) (i : In) : Prop := ∀ t rest, r = .ok t rest → tyNE t = true → ∃ s, i = s ++ rest ∧ TyS t s

structure QS (f : Nat) : Prop where
  v : ∀ i, PostS (varlinkType f i) i
  o : ∀ i, PostS (optionalType f i) i
  a : ∀ i, PostS (arrayType f i) i
  m : ∀ i, PostS (mapType f i) i
  e : ∀ i, PostS (elementType f i) i
  il : ∀ i, PostS (inlineType f i) i
  s : ∀ i, PostS (structType f i) i
  en : ∀ i, PostS (enumType f i) i
  fs : ∀ i fl r, fieldsSep f i = .ok fl r → fieldsNE fl = true → ∃ s, i = s ++ r ∧ FieldsS fl s
  fm : ∀ i acc fl r, fieldsMore f i acc = .ok fl r → fieldsNE fl = true →
        ∃ more s, fl = acc ++ more ∧ i = s ++ r ∧ FieldsMoreS more s
  fd : ∀ i fld r, field f i = .ok fld r → tyNE fld.2.1 = true → ∃ s, i = s ++ r ∧ FieldS fld s

theorem qs_zero : QS 0 := by
  constructor <;> intros <;> first | (intro _ _ h; cases h) | (rename_i h _; cases h) | (rename_i h; cases h)

theorem VarsS.noComments {vs : List (In × List In)} {s : In} (h : VarsS vs s) :
    (vs.map (·.1)).map (fun x => (x, ([] : List In))) = vs := by
  induction h with
  | nil => rfl
  | cons _ _ _ _ ih => simp only [List.map_cons, ih]

theorem qs_succ (f : Nat) (q : QS f) : QS (f + 1) := by
  have qt := qt_all f
  refine ⟨?v, ?o, ?a, ?m, ?e, ?il, ?s, ?en, ?fs, ?fm, ?fd⟩
  case v =>
    intro i t rest h hne
    rw [varlinkType] at h
    split at h
    · rename_i t1 r1 h1; cases h; exact q.o i _ _ h1 hne
    · split at h
      · rename_i t1 r1 h1; cases h; exact q.a i _ _ h1 hne
      · split at h
        · rename_i t1 r1 h1; cases h; exact q.m i _ _ h1 hne
        · exact q.e i _ _ h hne
  case o =>
    intro i t rest h hne
    rw [optionalType] at h
    split at h
    · rename_i r0 hl
      have e0 := litB_split _ _ _ hl
      split at h
      · rename_i t1 r1 h1; cases h
        obtain ⟨s, hs, hS⟩ := q.a r0 _ _ h1 (by simpa [tyNE] using hne)
        exact ⟨63 :: s, by rw [e0, hs]; simp, .optional (qt.a r0 _ _ h1).2 hS⟩
      · split at h
        · rename_i t1 r1 h1; cases h
          obtain ⟨s, hs, hS⟩ := q.m r0 _ _ h1 (by simpa [tyNE] using hne)
          exact ⟨63 :: s, by rw [e0, hs]; simp, .optional (qt.m r0 _ _ h1).2 hS⟩
        · split at h
          · rename_i t1 r1 h1; cases h
            obtain ⟨s, hs, hS⟩ := q.e r0 _ _ h1 (by simpa [tyNE] using hne)
            exact ⟨63 :: s, by rw [e0, hs]; simp, .optional (qt.e r0 _ _ h1).2 hS⟩
          · cases h
    · cases h
  case a =>
    intro i t rest h hne
    rw [arrayType] at h
    split at h
    · rename_i r0 hl
      have e0 := litB_split _ _ _ hl
      split at h
      · rename_i t1 r1 h1; cases h
        obtain ⟨s, hs, hS⟩ := q.v r0 _ _ h1 (by simpa [tyNE] using hne)
        exact ⟨91 :: 93 :: s, by rw [e0, hs]; simp, .array hS⟩
      · cases h
    · cases h
  case m =>
    intro i t rest h hne
    rw [mapType] at h
    split at h
    · rename_i r0 hl
      have e0 := litB_split _ _ _ hl
      split at h
      · rename_i t1 r1 h1; cases h
        obtain ⟨s, hs, hS⟩ := q.v r0 _ _ h1 (by simpa [tyNE] using hne)
        exact ⟨([91, 115, 116, 114, 105, 110, 103, 93] : In) ++ s, by rw [e0, hs]; simp, .map hS⟩
      · cases h
    · cases h
  case e =>
    intro i t rest h hne
    rw [elementType] at h
    split at h
    · rename_i t1 r1 h1; cases h; exact primitive_split _ _ _ h1
    · split at h
      · rename_i n r1 h1; cases h
        obtain ⟨hn, he⟩ := typeName_sound _ _ _ h1
        exact ⟨n, he, .custom hn⟩
      · exact q.il i _ _ h hne
  case il =>
    intro i t rest h hne
    rw [inlineType] at h
    split at h
    · rename_i t1 r1 h1; cases h; exact q.s i _ _ h1 hne
    · exact q.en i _ _ h hne
  case s =>
    intro i t rest h hne
    rw [structType] at h
    split at h
    · rename_i r0 hl
      have e0 := litB_split _ _ _ hl
      simp only [] at h
      obtain ⟨w, hw, hwo⟩ := whitespaceOnly_split r0
      split at h
      · rename_i fl r1 h1
        obtain ⟨g, hg, hG⟩ := wsF_split r1
        split at h
        · rename_i r2 hl2
          cases h
          have e2 := litB_split _ _ _ hl2
          obtain ⟨s, hs, hS⟩ := q.fs _ _ _ h1 (by simpa [tyNE] using hne)
          refine ⟨40 :: (w ++ (s ++ (g ++ [41]))), ?_, .struct hwo hS hG⟩
          rw [e0, hw, hs, hg, e2]; simp
        · cases h
      · cases h
    · cases h
  case en =>
    intro i t rest h hne
    rw [enumType] at h
    split at h
    · rename_i r0 hl
      have e0 := litB_split _ _ _ hl
      simp only [] at h
      obtain ⟨g0, hg0, hG0⟩ := wsF_split r0
      split at h
      · rename_i r2 hl2
        cases hfn : fieldName (wsF r0) with
        | ok v r1 =>
          rw [hfn] at hl2 h
          simp only [] at hl2 h
          cases h
          have e2 := litB_split _ _ _ hl2
          obtain ⟨hvok, hve⟩ := fieldName_sound _ _ _ hfn
          obtain ⟨vs, s, h1, h2, h3⟩ := enum_more_split (r1.length + 1) r1 [v]
          obtain ⟨g1, hg1, hG1⟩ := wsF_split (enumType.more (r1.length + 1) r1 [v]).2
          refine ⟨40 :: (g0 ++ (v ++ (s ++ (g1 ++ [41])))), ?_, ?_⟩
          · rw [e0, hg0, hve, h2, hg1, e2]; simp
          · rw [h1]
            simp only [List.singleton_append, List.map_cons, h3.noComments]
            exact .enum hG0 hvok h3 hG1
        | err e =>
          rw [hfn] at h
          simp only [] at h
          cases h
          simp [tyNE] at hne
      · cases h
    · cases h
  case fs =>
    intro i fl r h hne
    rw [fieldsSep] at h
    split at h
    · cases h; exact ⟨[], rfl, .nil⟩
    · rename_i fld r1 h1
      obtain ⟨more, s2, hfl, hs2, hM⟩ := q.fm _ _ _ _ h hne
      subst hfl
      obtain ⟨n, t, cs⟩ := fld
      have hne1 : tyNE t = true := by
        simp only [List.singleton_append, fieldsNE, Bool.and_eq_true] at hne; exact hne.1
      obtain ⟨s1, hs1, hF⟩ := q.fd _ _ _ h1 hne1
      exact ⟨s1 ++ s2, by rw [hs1, hs2]; simp, .cons hF hM⟩
  case fm =>
    intro i acc fl r h hne
    rw [fieldsMore] at h
    simp only [] at h
    obtain ⟨g1, hg1, hG1⟩ := wsF_split i
    split at h
    · rename_i i2 hl
      have e1 := litB_split _ _ _ hl
      obtain ⟨w2, hw2, hw2o⟩ := whitespaceOnly_split i2
      split at h
      · cases h; exact ⟨[], [], by simp, by simp, .nil⟩
      · rename_i fld r1 h1
        obtain ⟨more, s2, hfl, hs2, hM⟩ := q.fm _ _ _ _ h hne
        subst hfl
        obtain ⟨n, t, cs⟩ := fld
        have hne1 : tyNE t = true := by
          rw [fieldsNE_append, fieldsNE_append] at hne
          simp only [fieldsNE, Bool.and_eq_true] at hne; exact hne.1.2.1
        obtain ⟨s1, hs1, hF⟩ := q.fd _ _ _ h1 hne1
        refine ⟨(n, t, cs) :: more, g1 ++ 44 :: (w2 ++ (s1 ++ s2)), by simp, ?_, .cons hG1 hw2o hF hM⟩
        conv => lhs; rw [hg1, e1, hw2, hs1, hs2]
        simp
    · cases h; exact ⟨[], [], by simp, by simp, .nil⟩
  case fd =>
    intro i fld r h hne
    rw [field] at h
    split at h
    rename_i cs i1 hpc
    have hsplit := pcF_split i
    rw [hpc] at hsplit
    simp only [] at hsplit
    split at h
    · rename_i n r1 hn
      obtain ⟨hnok, hne1⟩ := fieldName_sound _ _ _ hn
      rcases hsplit with ⟨sc, hsc, hC⟩ | hnil
      · simp only [] at h
        obtain ⟨g1, hg1, hG1⟩ := wsF_split r1
        split at h
        · rename_i r2 hl
          have e1 := litB_split _ _ _ hl
          obtain ⟨g2, hg2, hG2⟩ := wsF_split r2
          split at h
          · rename_i t r3 ht
            cases h
            obtain ⟨st, hst, hT⟩ := q.v _ _ _ ht hne
            refine ⟨sc ++ (n ++ (g1 ++ 58 :: (g2 ++ st))), ?_, .mk hC hnok hG1 hG2 hT⟩
            conv => lhs; rw [hsc, hne1, hg1, e1, hg2, hst]
            simp
          · cases h
        · cases h
      · subst hnil; simp [fieldName] at hn
    · cases h

theorem qs_all : ∀ f, QS f := by
  intro f
  induction f with
  | zero => exact qs_zero
  | succ f ih => exact qs_succ f ih

/-- whatever `varlink_type` accepts was a text of the type it returns, completely consumed -/
theorem varlinkType_textSound (f : Nat) (i : In) (t : Ty) (r : In) (h : varlinkType f i = .ok t r) (hne : tyNE t = true) :
    ∃ s, i = s ++ r ∧ TyS t s := (qs_all f).v i t r h hne

end Idl
