import Zlink.Proofs.Chain
import Zlink.Proofs.Tx
import Zlink.Proofs.RxWake
/-! # C06 — A chain's reply stream yields exactly the replies its calls are owed

Models: `Zlink/Model/Chain.lean` (`chain/reply_stream.rs`) over `Zlink/Model/Rx.lean`; `chain/mod.rs`
(`new`/`append` = `enqueue_call`, `send` = one `flush`) over `Zlink/Model/Tx.lean`.
`kind` (what `receive_reply` makes of a frame) is a parameter. -/
namespace C06
open Rx Chain SpecChain

/-- **C06 (full statement, receive side).** For every number `count` of replies owed, every conforming
    script `F` (`Conforming`: each owed call gets continuing replies and then a final reply or a
    method error), every list `T` of later unrelated frames, every read-size schedule and every
    interleaving of arrivals with polls of the stream: the stream yields exactly the frames of `F` in
    order, is pending only while something is still owed, ends once everything owed was yielded and
    never fails; and the connection afterwards has consumed a prefix of `F` only — never a frame of
    `T` — all of `F` exactly when the stream has ended. -/
theorem C06_owed (kind : List Byte → Kind) (C : Consts) (hstep : 0 < C.step) (sizes : Nat → Nat)
    (count : Nat) (F T : List (List Byte)) (hF : ∀ f ∈ F ++ T, FrameOK f)
    (hmax : (enc (F ++ T)).length < C.max) (hconf : Conforming kind count F = true)
    (evs : List Ev) (hev : EvsOK evs (enc (F ++ T))) :
    conforms (srun kind C sizes evs (Chain.new count) (init C) net0).1 F = true ∧
    ∃ done' R' fut', F = done' ++ R' ∧
      Inv C (F ++ T) (srun kind C sizes evs (Chain.new count) (init C) net0).2.2.1
        (srun kind C sizes evs (Chain.new count) (init C) net0).2.2.2 fut' done' ∧
      (srun kind C sizes evs (Chain.new count) (init C) net0).2.1.done = R'.isEmpty := by
  apply srun_conforms kind C hstep sizes F T hF hmax count evs (Chain.new count) (init C) net0
    (enc (F ++ T)) [] F (by simp) (inv_init C hstep (F ++ T)) hev (by simp [net0]) rfl hconf
  -- `new`: done from the start iff nothing is owed
  cases F with
  | nil =>
    simp only [Conforming, owedWalk, beq_iff_eq] at hconf
    simp [Chain.new, ← hconf]
  | cons a b =>
    simp only [Conforming, owedWalk, Bool.and_eq_true, decide_eq_true_eq] at hconf
    have : ¬ count = 0 := by omega
    simp [Chain.new, this]

/-- **The stream does not sit on a reply that is there.** Under the hypotheses of `C06_owed`: once every byte of the
    peer's stream has arrived, no poll of the stream is pending while a reply is still owed - the completeness oracle
    `SpecChain.complete`, which the driver evaluates on the real stream's outcomes (a stream that lost its wake-up, or
    that waits for something nobody sends, fails it). -/
theorem C06_complete (kind : List Byte → Kind) (C : Consts) (hstep : 0 < C.step) (sizes : Nat → Nat)
    (count : Nat) (F T : List (List Byte)) (hF : ∀ f ∈ F ++ T, FrameOK f)
    (hmax : (enc (F ++ T)).length < C.max) (hconf : Conforming kind count F = true)
    (evs : List Ev) (hev : EvsOK evs (enc (F ++ T))) :
    complete evs (srun kind C sizes evs (Chain.new count) (init C) net0).1 (enc (F ++ T)).length F.length = true := by
  apply srun_complete kind C hstep sizes F T hF hmax count evs (Chain.new count) (init C) net0
    (enc (F ++ T)) [] F (by simp) (inv_init C hstep (F ++ T)) hev (by simp [net0]) rfl hconf
  cases F with
  | nil =>
    simp only [Conforming, owedWalk, beq_iff_eq] at hconf
    simp [Chain.new, ← hconf]
  | cons a b =>
    simp only [Conforming, owedWalk, Bool.and_eq_true, decide_eq_true_eq] at hconf
    have : ¬ count = 0 := by omega
    simp [Chain.new, this]

/-- **A parked reply stream needs no polling.** A poll of the stream that ended pending has taken everything the
    transport held; polling the stream again before anything arrives is pending again and changes neither the stream's
    bookkeeping nor the connection's buffer and cursors nor the transport. A consumer that polls the stream only when its
    waker has fired sees the items of `C06_owed`. -/
theorem C06_parked_stream_poll_is_noop (kind : List Byte → Kind) (C : Consts) (sizes : Nat → Nat) (ss : SS) (s : St) (e : Net)
    (h : (spoll kind C sizes ss s e).1 = .pending) :
    spoll kind C sizes (spoll kind C sizes ss s e).2.1 (spoll kind C sizes ss s e).2.2.1 (spoll kind C sizes ss s e).2.2.2 =
      (.pending, (spoll kind C sizes ss s e).2.1, (spoll kind C sizes ss s e).2.2.1, (spoll kind C sizes ss s e).2.2.2) := by
  unfold spoll at h ⊢
  by_cases hd : ss.done = true
  · rw [if_pos hd] at h; cases h
  · rw [if_neg hd] at h ⊢
    generalize hp : poll C sizes s e = r at h ⊢
    obtain ⟨o, s', e'⟩ := r
    cases o with
    | frame f => simp only [] at h; cases h
    | err x => simp only [] at h; cases h
    | pending =>
      simp only []
      rw [if_neg hd]
      have hfix := poll_pending_fix C sizes s e (by rw [hp])
      rw [hp] at hfix
      simp only [] at hfix
      rw [hfix]

/-- A chain made only of oneway calls is owed nothing: its stream ends at once **without touching the
    transport or the receive buffer**, so it can neither wait for nor consume a later frame. -/
theorem C06_all_oneway (kind : List Byte → Kind) (C : Consts) (sizes : Nat → Nat) (s : St) (e : Net) :
    spoll kind C sizes (Chain.new 0) s e = (.ended, Chain.new 0, s, e) := by
  simp [spoll, Chain.new]

/-- A transport failure or end-of-stream ends the reply stream (it yields the failure and then ends). -/
theorem C06_stops_on_transport_error (kind : List Byte → Kind) (C : Consts) (sizes : Nat → Nat)
    (ss : SS) (s s' : St) (e e' : Net) (x : Err) (hd : ss.done = false)
    (hp : poll C sizes s e = (.err x, s', e')) :
    (spoll kind C sizes ss s e).1 = .fail x ∧ (spoll kind C sizes ss s e).2.1.done = true := by
  have : spoll kind C sizes ss s e = (.fail x,
      (if ({ ss with done := true } : SS).idx ≥ ({ ss with done := true } : SS).count
        then { ({ ss with done := true } : SS) with done := true } else { ss with done := true }), s', e') := by
    simp [spoll, hd, hp]
  rw [this]
  refine ⟨rfl, ?_⟩
  dsimp only
  split <;> rfl

/-! ### Send side: all calls of a chain reach the transport in one write, in chain order -/

def chainOps (calls : List (List Tx.Byte)) : List Tx.Op :=
  calls.map (fun b => Tx.Op.enqueue (.ok b)) ++ [.flush true]

def encT (fs : List (List Tx.Byte)) : List Tx.Byte := fs.flatMap (· ++ [0])

theorem spec_chain (C : Tx.Consts) : ∀ (calls : List (List Tx.Byte)) (q : SpecTx.Q),
    (q ++ encT calls).length ≤ C.max → q ++ encT calls ≠ [] →
    (SpecTx.run C (chainOps calls) q).2 = [q ++ encT calls] ∧
    (SpecTx.run C (chainOps calls) q).1 = List.replicate (calls.length + 1) .ok := by
  intro calls
  induction calls with
  | nil =>
    intro q _ hne
    have hq : q ≠ [] := by simpa [encT] using hne
    simp [chainOps, SpecTx.run, SpecTx.step, SpecTx.flush, hq, encT]
  | cons b r ih =>
    intro q hlen hne
    have hfit : q.length + b.length + 1 ≤ C.max := by
      simp [encT] at hlen; omega
    have hstep : SpecTx.step C q (.enqueue (.ok b)) = (.ok, none, q ++ b ++ [0]) := by
      simp [SpecTx.step, SpecTx.enqueue, hfit]
    have := ih (q ++ b ++ [0]) (by simpa [encT] using hlen) (by simp)
    simp only [chainOps, List.map_cons, List.cons_append, SpecTx.run, hstep] at this ⊢
    refine ⟨by simpa [encT] using this.1, ?_⟩
    rw [this.2]; simp [List.replicate_succ]

/-- **One write, chain order**: enqueueing the calls of a chain and flushing once issues exactly one
    transport write holding `call ++ [0]` for every call, in order (provided the batch fits under the
    buffer limit; otherwise the call that does not fit is refused, see C17). -/
theorem C06_one_write (C : Tx.Consts) (M : Nat) (hs : 0 < C.step) (hm : C.max = M * C.step) (hM : 1 ≤ M)
    (calls : List (List Tx.Byte)) (hne : calls ≠ []) (hlen : (encT calls).length ≤ C.max) :
    (Tx.run C (chainOps calls) (Tx.init C)).2 = [encT calls] := by
  rw [Tx.run_refines C M _ (Tx.init C) (Tx.inv_init C M hs hm hM)]
  have h := spec_chain C calls [] (by simpa using hlen) (by
    cases calls with
    | nil => exact absurd rfl hne
    | cons a b => simp [encT])
  simpa [Tx.init] using h.1

/-- The model's run satisfies the executable oracle used on implementation observations. -/
theorem C06_oracle (kind : List Byte → Kind) (C : Consts) (hstep : 0 < C.step) (sizes : Nat → Nat)
    (count : Nat) (F T : List (List Byte)) (hF : ∀ f ∈ F ++ T, FrameOK f)
    (hmax : (enc (F ++ T)).length < C.max) (hconf : Conforming kind count F = true)
    (evs : List Ev) (hev : EvsOK evs (enc (F ++ T))) :
    conforms (srun kind C sizes evs (Chain.new count) (init C) net0).1 F = true :=
  (C06_owed kind C hstep sizes count F T hF hmax hconf evs hev).1

/-! ## Non-vacuity -/
namespace Example
def kind : List Byte → Kind := fun f => if f = [99] then .cont else if f = [101] then .merr else .final
/-- 2 owed calls (the first a `more` call): cont, cont, final; then error; trailing frame `[120]`. -/
def F : List (List Byte) := [[99], [99], [102], [101]]
def T : List (List Byte) := [[120]]
example : Conforming kind 2 F = true := by decide
def C : Consts := { step := 4, max := 64 }
def evs : List Ev := [.poll, .arrive [99, 0, 99], .poll, .arrive [0, 102, 0, 101, 0, 120, 0], .poll, .poll, .poll, .poll, .poll]
example : (srun kind C (fun _ => 100) evs (Chain.new 2) (init C) net0).1 =
    [.pending, .pending, .item [99], .item [99], .item [102], .item [101], .ended] := by decide
end Example
end C06
