import Zlink.Proofs.RxOracle
import Zlink.Proofs.RxPhases
import Zlink.Gen.Consts
/-! # C01 — Inbound framing is independent of how the transport fragments the stream

Model: `Zlink/Model/Rx.lean` (`read_connection.rs`: `read_from_socket`, `read_message`).
`dec` — "decode this frame as the requested type" — is a parameter: every theorem holds for every
`dec`, so a result depends on its own frame's bytes only. -/
namespace C01
open Rx

/-- Result of a receive as the caller sees it. -/
inductive Res (R : Type) | pending | msg (r : R) | eof | overflow
deriving Repr, DecidableEq

def res {R} (dec : List Byte → R) : Out → Res R
  | .pending => .pending
  | .frame f => .msg (dec f)
  | .err .eof => .eof
  | .err .overflow => .overflow

/-- `n` successive `receive_*` calls on a fresh connection whose peer sent `stream` and closed. -/
def receiveAll {R} (C : Consts) (sizes : Nat → Nat) (dec : List Byte → R) (stream : List Byte) (n : Nat) :
    List (Res R) :=
  (recvN C sizes n (init C) ⟨stream, true, 0⟩).map (res dec)

/-- **C01 (full statement).** For every list of non-empty NUL-free frames, every read-size schedule
    (every way the transport splits or coalesces the bytes), every decode function and every number
    `m` of further receives: successive receives return exactly one result per frame, in order, each
    the decoding of that frame's bytes alone, and then end-of-stream. -/
theorem C01_framing {R} (C : Consts) (hstep : 0 < C.step) (sizes : Nat → Nat) (dec : List Byte → R)
    (frames : List (List Byte)) (hF : ∀ f ∈ frames, FrameOK f) (hmax : (enc frames).length < C.max)
    (m : Nat) :
    receiveAll C sizes dec (enc frames) (frames.length + m) =
      frames.map (fun f => Res.msg (dec f)) ++ List.replicate m Res.eof := by
  unfold receiveAll
  rw [recvN_frames C hstep sizes frames hF hmax m frames [] (init C) _ (by simp)
    (inv_all_arrived C hstep frames) rfl]
  simp [res, Function.comp_def]

/-- **C01 at poll level**: bytes arriving over time, polls that stay pending, any interleaving. -/
theorem C01_poll (C : Consts) (hstep : 0 < C.step) (sizes : Nat → Nat)
    (frames : List (List Byte)) (hF : ∀ f ∈ frames, FrameOK f) (hmax : (enc frames).length < C.max)
    (evs : List Ev) (hev : EvsOK evs (enc frames)) :
    Good (run C sizes evs (init C) net0) frames :=
  C07_safe C hstep sizes frames hF hmax evs hev

/-- A frame that fails to decode (or is padded, or is anything else) changes the result of no other
    frame: replacing frame `k` by any other well-formed frame `g` changes result `k` only. -/
theorem C01_errors_local {R} (C : Consts) (hstep : 0 < C.step) (sizes sizes' : Nat → Nat) (dec : List Byte → R)
    (frames : List (List Byte)) (hF : ∀ f ∈ frames, FrameOK f) (hmax : (enc frames).length < C.max)
    (k : Nat) (hk : k < frames.length) (g : List Byte) (hg : FrameOK g)
    (hmax' : (enc (frames.set k g)).length < C.max) :
    receiveAll C sizes' dec (enc (frames.set k g)) (frames.length + 1) =
      (receiveAll C sizes dec (enc frames) (frames.length + 1)).set k (Res.msg (dec g)) := by
  have hF' : ∀ f ∈ frames.set k g, FrameOK f := by
    intro f hf
    rcases List.mem_or_eq_of_mem_set hf with h | h
    · exact hF f h
    · rw [h]; exact hg
  have h1 := C01_framing C hstep sizes' dec (frames.set k g) hF' hmax' 1
  rw [List.length_set] at h1
  rw [h1, C01_framing C hstep sizes dec frames hF hmax 1]
  rw [List.map_set, List.set_append_left _ _ (by simpa using hk)]

/-- The model's run satisfies the executable oracle that the harness evaluates on the
    implementation's observations. -/
theorem C01_oracle (C : Consts) (hstep : 0 < C.step) (sizes : Nat → Nat)
    (frames : List (List Byte)) (hF : ∀ f ∈ frames, FrameOK f) (hmax : (enc frames).length < C.max)
    (evs : List Ev) (hev : EvsOK evs (enc frames)) :
    SpecRx.holds frames evs (run C sizes evs (init C) net0) = true :=
  run_holds C hstep sizes frames hF hmax evs hev

/-- **C01 for streams of any total length.** The theorems above bound the whole stream by the limit; the
    code only ever bounds what is buffered at once. Split a connection's life into phases: in each, a
    burst of frames (together shorter than the limit) arrives — cut and interleaved with polls in any
    way — and the next burst starts arriving only after the polls of the phase have handed out every
    frame of it. Then, however many phases there are and however large the total, the outcomes of every
    phase are exactly its frames, in order (`Good`), and satisfy the executable oracle (`holds`): what
    the connection carried before, and the capacity its buffer grew to, change nothing. -/
theorem C01_any_length (C : Consts) (M : Nat) (hstep : 0 < C.step) (hm : C.max = M * C.step) (hM : 1 ≤ M)
    (sizes : Nat → Nat) (ps : List Phase) (hps : ∀ p ∈ ps, PhaseOK C p) :
    PhasesHold ps (runPhases C sizes ps (init C) net0).1 :=
  (phases_from_idle C M hstep hm sizes ps (init C) net0 hps (init_idle C)
    ⟨1, by simp [init], Nat.le_refl _, hM⟩ rfl rfl).1

/-- the phased run is the run over the concatenated events (one connection, one event sequence) -/
theorem C01_phases_are_one_run (C : Consts) (sizes : Nat → Nat) :
    ∀ (ps : List Phase) (s : St) (e : Net),
      (runPhases C sizes ps s e).1.flatten = run C sizes (ps.flatMap (·.2)) s e := by
  intro ps
  induction ps with
  | nil => intro s e; rfl
  | cons p ps ih =>
    intro s e
    simp only [runPhases, List.flatten_cons, List.flatMap_cons]
    rw [run_append, ih]

end C01

/-! ## Non-vacuity: the hypotheses are met by concrete non-trivial inputs -/
namespace Example
def frames : List (List Rx.Byte) := [[123, 125], [32, 120, 32], [91, 49, 44, 50, 93]]
def C : Rx.Consts := { step := 4, max := 64 }

example : (∀ f ∈ frames, Rx.FrameOK f) ∧ (Rx.enc frames).length < C.max ∧ 0 < C.step := by
  refine ⟨?_, by decide, by decide⟩
  intro f hf
  simp only [frames, List.mem_cons, List.mem_nil_iff, or_false] at hf
  rcases hf with h | h | h <;> subst h <;> exact ⟨by simp, by decide⟩

/-- Three frames cut into 3-byte reads across buffer growth (step 4): one result per frame, then
    end-of-stream — computed by the model, agreeing with `C01_framing`. -/
example : C01.receiveAll C (fun _ => 2) List.length (Rx.enc frames) 5
    = [.msg 2, .msg 3, .msg 5, .eof, .eof] := by decide

/-- A history whose total (3 x 13 = 39 bytes) exceeds a limit of 16: three phases, each consumed. -/
def C16 : Rx.Consts := { step := 4, max := 16 }
def phase : Rx.Phase := (frames, [.arrive (Rx.enc frames), .poll, .poll, .poll, .poll])
example : Rx.hasClose phase.2 = false ∧ (Rx.enc phase.1).length < C16.max ∧ 16 ≤ (Rx.enc (frames ++ frames ++ frames)).length := by decide
example : (Rx.runPhases C16 (fun _ => 2) [phase, phase, phase] (Rx.init C16) Rx.net0).1 =
    List.replicate 3 [.frame [123, 125], .frame [32, 120, 32], .frame [91, 49, 44, 50, 93], .pending] := by decide
end Example
