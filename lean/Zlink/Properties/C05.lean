import Zlink.Proofs.Envelope
import Zlink.Spec.Envelope
import Zlink.Gen.Consts
/-! # C05 — Call, reply and error envelopes follow the Varlink schema and round-trip

Model: `Zlink/Model/Envelope.lean` (`call/ser.rs`, `call/de.rs`, `reply.rs`, the `ReplyError` derive,
`varlink_service::{Method, Error}`). -/
namespace C05
open Env

/-- The flag names used by the encoder and the decoder of the current source are the three Varlink
    flags, the same on both sides. (Extracted from `call/ser.rs` and `call/de.rs`.) -/
theorem C05_flag_names : Gen.callFlagsSer = ["oneway", "more", "upgrade"] ∧ Gen.callFlagsDe = Gen.callFlagsSer := by
  decide

/-- **Flags appear only when set**: a flag member is present in an encoded call exactly when the
    flag is set, and then its value is `true`. -/
theorem C05_flags_only_when_set (f : Flags) :
    hasKey "oneway" (encodeFlags f) = f.oneway ∧ hasKey "more" (encodeFlags f) = f.more ∧
    hasKey "upgrade" (encodeFlags f) = f.upgrade := by
  cases f with
  | mk o m u => cases o <;> cases m <;> cases u <;> decide

/-- **Flags are hidden from the method type and everything else passes through**: what `splitFlags`
    hands to the method type contains no flag member, and every non-flag member is kept, in order. -/
theorem C05_flags_hidden : ∀ (ms rest : Members) (o m u : Option Bool), splitFlags ms = some (rest, o, m, u) →
    rest = ms.filter (fun p => p.1 ≠ "oneway" ∧ p.1 ≠ "more" ∧ p.1 ≠ "upgrade") := by
  intro ms
  induction ms with
  | nil => intro rest o m u h; simp [splitFlags] at h; simp [h.1]
  | cons p r ih =>
    intro rest o m u h
    obtain ⟨k, v⟩ := p
    simp only [splitFlags] at h
    cases hr : splitFlags r with
    | none => rw [hr] at h; cases h
    | some q =>
      obtain ⟨rest', o', m', u'⟩ := q
      rw [hr] at h
      simp only [] at h
      have ih' := ih rest' o' m' u' hr
      by_cases h1 : k = "oneway"
      · subst h1
        simp only [if_true] at h
        cases v <;> simp at h
        obtain ⟨h, _⟩ := h
        subst h; simp [ih']
      · rw [if_neg h1] at h
        by_cases h2 : k = "more"
        · subst h2
          simp only [if_true] at h
          cases v <;> simp at h
          obtain ⟨h, _⟩ := h
          subst h; simp [ih']
        · rw [if_neg h2] at h
          by_cases h3 : k = "upgrade"
          · subst h3
            simp only [if_true] at h
            cases v <;> simp at h
            obtain ⟨h, _⟩ := h
            subst h; simp [ih']
          · rw [if_neg h3] at h
            simp at h
            obtain ⟨h, _⟩ := h
            subst h
            simp [ih', h1, h2, h3]


/-! ### every well-formed call is accepted (the completeness half of the `calldec` oracle, on the model) -/

/-- **Every other member is passed through.** A method type that keeps whatever it is handed (`method` + a catch-all)
    is shown exactly the members of the frame that are not one of the three flags, in their order, with their values:
    `id`, `tag`, `parameters` of any shape, members the protocol does not define - nothing else is hidden from it. -/
theorem C05_open_method_sees_everything_else (name : String) (ms rest : Members) (f : Flags)
    (h : decodeCallOpen name (.obj ms) = some (rest, f)) :
    rest = ms.filter (fun p => p.1 ≠ "oneway" ∧ p.1 ≠ "more" ∧ p.1 ≠ "upgrade") := by
  simp only [decodeCallOpen] at h
  cases hs : splitFlags ms with
  | none => rw [hs] at h; cases h
  | some r =>
    obtain ⟨rest', o, m, u⟩ := r
    rw [hs] at h
    simp only [] at h
    by_cases hc : namesMethod name rest' = true
    · rw [if_pos hc] at h
      simp only [Option.some.injEq, Prod.mk.injEq] at h
      rw [← h.1]
      exact C05_flags_hidden ms rest' o m u hs
    · rw [if_neg hc] at h; cases h

theorem splitFlags_some_of_bools : ∀ (ms : Members),
    (∀ p ∈ ms, (p.1 = "oneway" ∨ p.1 = "more" ∨ p.1 = "upgrade") → ∃ b, p.2 = .bool b) →
    ∃ q, splitFlags ms = some q := by
  intro ms
  induction ms with
  | nil => intro _; exact ⟨_, rfl⟩
  | cons p r ih =>
    intro h
    obtain ⟨k, v⟩ := p
    obtain ⟨q, hq⟩ := ih (fun p hp hk => h p (by simp [hp]) hk)
    obtain ⟨rest, o, m, u⟩ := q
    simp only [splitFlags, hq]
    by_cases h1 : k = "oneway"
    · obtain ⟨b, hb⟩ := h (k, v) (by simp) (Or.inl h1)
      simp only [] at hb; subst hb; rw [if_pos h1]; exact ⟨_, rfl⟩
    · rw [if_neg h1]
      by_cases h2 : k = "more"
      · obtain ⟨b, hb⟩ := h (k, v) (by simp) (Or.inr (Or.inl h2))
        simp only [] at hb; subst hb; rw [if_pos h2]; exact ⟨_, rfl⟩
      · rw [if_neg h2]
        by_cases h3 : k = "upgrade"
        · obtain ⟨b, hb⟩ := h (k, v) (by simp) (Or.inr (Or.inr h3))
          simp only [] at hb; subst hb; rw [if_pos h3]; exact ⟨_, rfl⟩
        · rw [if_neg h3]; exact ⟨_, rfl⟩

theorem lookup_filter_ne (k : String) (P : String → Bool) (hk : P k = true) : ∀ (ms : Members),
    lookup k (ms.filter (fun p => P p.1)) = lookup k ms := by
  intro ms
  induction ms with
  | nil => rfl
  | cons p r ih =>
    obtain ⟨k', v⟩ := p
    by_cases hp : P k' = true
    · simp only [List.filter_cons, hp, if_true, lookup, ih]
    · have hne : k' ≠ k := by intro e; subst e; exact hp hk
      simp only [List.filter_cons, hp, lookup, if_neg hne]
      exact ih

theorem count_filter_ne (k : String) (P : String → Bool) (hk : P k = true) (ms : Members) :
    count k (ms.filter (fun p => P p.1)) = count k ms := by
  unfold count
  rw [List.filter_filter]
  congr 1
  apply List.filter_congr
  intro p _
  by_cases hp : p.1 = k
  · simp [hp, hk]
  · simp [hp]

/-- **A well-formed call is accepted in every member order**: exactly one `method` member naming a variant of
    the method type, boolean flag members anywhere, and `parameters` right for the variant — the fields as one
    object; for a field-less variant absent or `null`, and `{}` too where every spelling of "no parameters"
    must be recognised (`lenient`: the standard service's `GetInfo`) — is decoded, never refused.
    (`SpecEnv.callMustDecode` is the predicate the driver evaluates on every frame the real `Call`
    deserializer refuses.) -/
theorem C05_wellformed_call_accepted (M : List Variant) (ms : Members)
    (h : SpecEnv.callMustDecode M ms = true) : ∃ c, decodeCall M (.obj ms) = some c := by
  unfold SpecEnv.callMustDecode at h
  simp only [] at h
  split at h
  · cases h
  · rename_i hcnt
    split at h
    · cases h
    · rename_i hfl
      simp only [Bool.not_eq_true, Bool.or_eq_false_iff, bne_eq_false_iff_eq,
        decide_eq_false_iff_not, Nat.not_lt] at hcnt
      simp only [Bool.not_eq_true, Bool.not_eq_false', Bool.and_eq_true, List.all_eq_true] at hfl
      obtain ⟨⟨ho, hm⟩, hu⟩ := hfl
      have hbools : ∀ p ∈ ms, (p.1 = "oneway" ∨ p.1 = "more" ∨ p.1 = "upgrade") → ∃ b, p.2 = .bool b := by
        intro p hp hk
        have key : ∀ k, p.1 = k →
            (∀ x ∈ ms.filter (fun q => decide (q.1 = k)), (match x.2 with | J.bool _ => true | _ => false) = true) →
            ∃ b, p.2 = .bool b := by
          intro k hk hall
          have := hall p (by simp [hp, hk])
          cases hv : p.2 with
          | bool b => exact ⟨b, rfl⟩
          | _ => simp [hv] at this
        rcases hk with hk | hk | hk
        · exact key _ hk ho
        · exact key _ hk hm
        · exact key _ hk hu
      obtain ⟨q, hq⟩ := splitFlags_some_of_bools ms hbools
      obtain ⟨rest, o, m, u⟩ := q
      have hrest := C05_flags_hidden ms rest o m u hq
      let P : String → Bool := fun k => decide (k ≠ "oneway" ∧ k ≠ "more" ∧ k ≠ "upgrade")
      have hrest' : rest = ms.filter (fun p => P p.1) := by
        rw [hrest]
      have hlm : lookup "method" rest = lookup "method" ms := by rw [hrest']; exact lookup_filter_ne _ P (by decide) ms
      have hlp : lookup "parameters" rest = lookup "parameters" ms := by rw [hrest']; exact lookup_filter_ne _ P (by decide) ms
      have hcm : count "method" rest = count "method" ms := by rw [hrest']; exact count_filter_ne _ P (by decide) ms
      have hcp : count "parameters" rest = count "parameters" ms := by rw [hrest']; exact count_filter_ne _ P (by decide) ms
      simp only [decodeCall, hq, decodeAdjM, hlm, hlp, hcm, hcp]
      have hc : ¬ (count "method" ms > 1 ∨ count "parameters" ms > 1) := by omega
      simp only [gt_iff_lt, Bool.or_eq_true, decide_eq_true_eq, hc, if_false]
      cases hmeth : lookup "method" ms with
      | none => simp [hmeth] at h
      | some jm =>
        cases jm with
        | str n e =>
          simp only [hmeth] at h ⊢
          cases hfv : findVariant M n with
          | none => simp [hfv] at h
          | some iv =>
            obtain ⟨i, v⟩ := iv
            simp only [hfv] at h ⊢
            cases hvf : v.fields with
            | none =>
              simp only [hvf] at h ⊢
              cases hpar : lookup "parameters" ms with
              | none => exact ⟨_, rfl⟩
              | some jp =>
                simp only [hpar] at h ⊢
                cases jp with
                | null => exact ⟨_, rfl⟩
                | obj cm =>
                  cases cm with
                  | nil => simp only [] at h; simp only [h, if_true]; exact ⟨_, rfl⟩
                  | cons _ _ => simp at h
                | _ => simp at h
            | some fs =>
              simp only [hvf] at h ⊢
              cases hpar : lookup "parameters" ms with
              | none => simp [hpar] at h
              | some jp =>
                simp only [hpar] at h ⊢
                cases jp with
                | obj cm =>
                  simp only [] at h
                  obtain ⟨xs, hxs⟩ := Option.isSome_iff_exists.mp h
                  simp only [hxs, Option.map_some]; exact ⟨_, rfl⟩
                | _ => simp at h
        | _ => simp [hmeth] at h

/-- non-vacuity: `{"parameters":null,"oneway":true,"method":"org.varlink.service.GetInfo"}` is a well-formed call -/
example : SpecEnv.callMustDecode [{ name := "org.varlink.service.GetInfo", fields := none, lenient := true }]
    [("parameters", .null), ("oneway", .bool true), ("method", .str "org.varlink.service.GetInfo" false)] = true := by decide

/-- **Call round trip**: for every method variant with distinct field names, every well-typed
    argument list and all 8 flag combinations, decoding the encoded call yields the same call. -/
theorem C05_call_roundtrip (M : List Variant) (i : Nat) (v : Variant) (args : List V) (f : Flags)
    (hfind : findVariant M v.name = some (i, v))
    (hargs : match v.fields with
      | none => args = []
      | some fs => (fs.map (·.name)).Nodup ∧ AllTyped fs args) :
    ∃ c, decodeCall M (encodeCall v args f) = some c ∧ c.variant = i ∧ c.args = args ∧ c.flags = f := by
  cases f with
  | mk o m u =>
  cases hv : v.fields with
  | none =>
    rw [hv] at hargs
    subst hargs
    have hd : decodeAdjM "method" "parameters" M [("method", J.str v.name false)] = some (i, []) := by
      simp [decodeAdjM, count, lookup, hfind, hv]
    cases o <;> cases m <;> cases u <;>
      simp [decodeCall, encodeCall, encodeAdj, encodeFlags, hv, splitFlags, hd]
  | some fs =>
    rw [hv] at hargs
    obtain ⟨hn, ht⟩ := hargs
    have hrt := decodeFields_roundtrip fs args hn ht
    have hd : decodeAdjM "method" "parameters" M
        [("method", J.str v.name false), ("parameters", J.obj (encodeFields fs args))] = some (i, args) := by
      simp [decodeAdjM, count, lookup, hfind, hv, hrt]
    cases o <;> cases m <;> cases u <;>
      simp [decodeCall, encodeCall, encodeAdj, encodeFlags, hv, splitFlags, hd]

/-- **Error encoding**: `{"error": "<interface>.<Variant>"}` plus a `parameters` object holding the
    variant's fields under their wire names exactly when it has fields. -/
theorem C05_error_encoding (v : Variant) (args : List V) :
    encodeAdj "error" "parameters" v args =
      match v.fields with
      | none => [("error", .str v.name false)]
      | some fs => [("error", .str v.name false), ("parameters", .obj (encodeFields fs args))] := by
  unfold encodeAdj; cases v.fields <;> rfl

/-- **Error round trip** (derived error enums and the standard service errors): decoding the encoded
    error yields the same variant with the same field values. -/
theorem C05_error_roundtrip (E : List Variant) (i : Nat) (v : Variant) (args : List V)
    (hfind : findVariant E v.name = some (i, v))
    (hargs : match v.fields with
      | none => args = []
      | some fs => (fs.map (·.name)).Nodup ∧ AllTyped fs args) :
    decodeAdjM "error" "parameters" E (encodeAdj "error" "parameters" v args) = some (i, args) := by
  cases hv : v.fields with
  | none =>
    rw [hv] at hargs; subst hargs
    simp [decodeAdjM, encodeAdj, count, lookup, hfind, hv]
  | some fs =>
    rw [hv] at hargs
    obtain ⟨hn, ht⟩ := hargs
    have hrt := decodeFields_roundtrip fs args hn ht
    simp [decodeAdjM, encodeAdj, count, lookup, hfind, hv, hrt]

/-- **Any member order, for tag/content**: with the tag before or after the content the result is the same. -/
theorem C05_error_member_order (E : List Variant) (n : String) (esc : Bool) (c : J) :
    decodeAdjM "error" "parameters" E [("error", .str n esc), ("parameters", c)] =
    decodeAdjM "error" "parameters" E [("parameters", c), ("error", .str n esc)] := by
  simp [decodeAdjM, count, lookup]

/-- **Reply encoding**: `parameters` and `continues` appear only when present. -/
theorem C05_reply_encoding (p : Option J) (c : Option Bool) :
    hasKey "parameters" (match encodeReply p c with | .obj ms => ms | _ => []) = p.isSome ∧
    hasKey "continues" (match encodeReply p c with | .obj ms => ms | _ => []) = c.isSome := by
  cases p <;> cases c <;> simp [encodeReply, hasKey]

/-- **No parameters, three spellings**: a field-less error variant of a derived enum (and of the
    standard service errors), and `GetInfo`, are recognised whether `parameters` is absent, `null` or `{}`. -/
theorem C05_no_parameters_spellings (tag : String) (vs : List Variant) (i : Nat) (v : Variant)
    (hfind : findVariant vs v.name = some (i, v)) (hv : v.fields = none) (hl : v.lenient = true)
    (htc : tag ≠ "parameters") :
    decodeAdjM tag "parameters" vs [(tag, .str v.name false)] = some (i, []) ∧
    decodeAdjM tag "parameters" vs [(tag, .str v.name false), ("parameters", .null)] = some (i, []) ∧
    decodeAdjM tag "parameters" vs [(tag, .str v.name false), ("parameters", .obj [])] = some (i, []) := by
  have h1 : ("parameters" = tag) = False := by simp; exact fun e => htc e.symm
  refine ⟨?_, ?_, ?_⟩ <;> simp [decodeAdjM, count, lookup, hfind, hv, hl, htc, h1]

/-! ## Non-vacuity -/
namespace Example
def M : List Variant := [{ name := "x.A", fields := some [{ name := "v", ty := .str }] }, { name := "x.B", fields := none }]
example : findVariant M "x.A" = some (0, M[0]) := by decide
example : AllTyped [{ name := "v", ty := .str }] [.str "hello"] := ⟨trivial, trivial⟩
end Example
end C05
