import Zlink.Proofs.Envelope
import Zlink.Gen.Consts
/-! # C05 — Call, reply and error envelopes follow the Varlink schema and round-trip

Model: `Zlink/Model/Envelope.lean` (`call/ser.rs`, `call/de.rs`, `reply.rs`, the `ReplyError` derive,
`varlink_service::{Method, Error}`). -/
namespace C05
open Env

/-- The flag names used by the encoder and the decoder of the current source are the three Varlink
    flags, the same on both sides. (Extracted from `call/ser.rs` and `call/de.rs`.) -/
theorem C05_flag_names : Gen.callFlagsSer = ["oneway", "more", "upgrade"] ∧ Gen.callFlagsDe = Gen.callFlagsSer := by
  decide

/-- **Flags appear only when set**: a flag member is present in an encoded call exactly when the
    flag is set, and then its value is `true`. -/
theorem C05_flags_only_when_set (f : Flags) :
    hasKey "oneway" (encodeFlags f) = f.oneway ∧ hasKey "more" (encodeFlags f) = f.more ∧
    hasKey "upgrade" (encodeFlags f) = f.upgrade := by
  cases f with
  | mk o m u => cases o <;> cases m <;> cases u <;> decide

/-- **Flags are hidden from the method type and everything else passes through**: what `splitFlags`
    hands to the method type contains no flag member, and every non-flag member is kept, in order. -/
theorem C05_flags_hidden : ∀ (ms rest : Members) (o m u : Option Bool), splitFlags ms = some (rest, o, m, u) →
    rest = ms.filter (fun p => p.1 ≠ "oneway" ∧ p.1 ≠ "more" ∧ p.1 ≠ "upgrade") := by
  intro ms
  induction ms with
  | nil => intro rest o m u h; simp [splitFlags] at h; simp [h.1]
  | cons p r ih =>
    intro rest o m u h
    obtain ⟨k, v⟩ := p
    simp only [splitFlags] at h
    cases hr : splitFlags r with
    | none => rw [hr] at h; cases h
    | some q =>
      obtain ⟨rest', o', m', u'⟩ := q
      rw [hr] at h
      simp only [] at h
      have ih' := ih rest' o' m' u' hr
      by_cases h1 : k = "oneway"
      · subst h1
        simp only [if_true] at h
        cases v <;> simp at h
        obtain ⟨h, _⟩ := h
        subst h; simp [ih']
      · rw [if_neg h1] at h
        by_cases h2 : k = "more"
        · subst h2
          simp only [if_true] at h
          cases v <;> simp at h
          obtain ⟨h, _⟩ := h
          subst h; simp [ih']
        · rw [if_neg h2] at h
          by_cases h3 : k = "upgrade"
          · subst h3
            simp only [if_true] at h
            cases v <;> simp at h
            obtain ⟨h, _⟩ := h
            subst h; simp [ih']
          · rw [if_neg h3] at h
            simp at h
            obtain ⟨h, _⟩ := h
            subst h
            simp [ih', h1, h2, h3]

/-- **Call round trip**: for every method variant with distinct field names, every well-typed
    argument list and all 8 flag combinations, decoding the encoded call yields the same call. -/
theorem C05_call_roundtrip (M : List Variant) (i : Nat) (v : Variant) (args : List V) (f : Flags)
    (hfind : findVariant M v.name = some (i, v))
    (hargs : match v.fields with
      | none => args = []
      | some fs => (fs.map (·.name)).Nodup ∧ AllTyped fs args) :
    ∃ c, decodeCall M (encodeCall v args f) = some c ∧ c.variant = i ∧ c.args = args ∧ c.flags = f := by
  cases f with
  | mk o m u =>
  cases hv : v.fields with
  | none =>
    rw [hv] at hargs
    subst hargs
    have hd : decodeAdjM "method" "parameters" M [("method", J.str v.name false)] = some (i, []) := by
      simp [decodeAdjM, count, lookup, hfind, hv]
    cases o <;> cases m <;> cases u <;>
      simp [decodeCall, encodeCall, encodeAdj, encodeFlags, hv, splitFlags, hd]
  | some fs =>
    rw [hv] at hargs
    obtain ⟨hn, ht⟩ := hargs
    have hrt := decodeFields_roundtrip fs args hn ht
    have hd : decodeAdjM "method" "parameters" M
        [("method", J.str v.name false), ("parameters", J.obj (encodeFields fs args))] = some (i, args) := by
      simp [decodeAdjM, count, lookup, hfind, hv, hrt]
    cases o <;> cases m <;> cases u <;>
      simp [decodeCall, encodeCall, encodeAdj, encodeFlags, hv, splitFlags, hd]

/-- **Error encoding**: `{"error": "<interface>.<Variant>"}` plus a `parameters` object holding the
    variant's fields under their wire names exactly when it has fields. -/
theorem C05_error_encoding (v : Variant) (args : List V) :
    encodeAdj "error" "parameters" v args =
      match v.fields with
      | none => [("error", .str v.name false)]
      | some fs => [("error", .str v.name false), ("parameters", .obj (encodeFields fs args))] := by
  unfold encodeAdj; cases v.fields <;> rfl

/-- **Error round trip** (derived error enums and the standard service errors): decoding the encoded
    error yields the same variant with the same field values. -/
theorem C05_error_roundtrip (E : List Variant) (i : Nat) (v : Variant) (args : List V)
    (hfind : findVariant E v.name = some (i, v))
    (hargs : match v.fields with
      | none => args = []
      | some fs => (fs.map (·.name)).Nodup ∧ AllTyped fs args) :
    decodeAdjM "error" "parameters" E (encodeAdj "error" "parameters" v args) = some (i, args) := by
  cases hv : v.fields with
  | none =>
    rw [hv] at hargs; subst hargs
    simp [decodeAdjM, encodeAdj, count, lookup, hfind, hv]
  | some fs =>
    rw [hv] at hargs
    obtain ⟨hn, ht⟩ := hargs
    have hrt := decodeFields_roundtrip fs args hn ht
    simp [decodeAdjM, encodeAdj, count, lookup, hfind, hv, hrt]

/-- **Any member order, for tag/content**: with the tag before or after the content the result is the same. -/
theorem C05_error_member_order (E : List Variant) (n : String) (esc : Bool) (c : J) :
    decodeAdjM "error" "parameters" E [("error", .str n esc), ("parameters", c)] =
    decodeAdjM "error" "parameters" E [("parameters", c), ("error", .str n esc)] := by
  simp [decodeAdjM, count, lookup]

/-- **Reply encoding**: `parameters` and `continues` appear only when present. -/
theorem C05_reply_encoding (p : Option J) (c : Option Bool) :
    hasKey "parameters" (match encodeReply p c with | .obj ms => ms | _ => []) = p.isSome ∧
    hasKey "continues" (match encodeReply p c with | .obj ms => ms | _ => []) = c.isSome := by
  cases p <;> cases c <;> simp [encodeReply, hasKey]

/-- **No parameters, three spellings**: a field-less error variant of a derived enum (and of the
    standard service errors), and `GetInfo`, are recognised whether `parameters` is absent, `null` or `{}`. -/
theorem C05_no_parameters_spellings (tag : String) (vs : List Variant) (i : Nat) (v : Variant)
    (hfind : findVariant vs v.name = some (i, v)) (hv : v.fields = none) (hl : v.lenient = true)
    (htc : tag ≠ "parameters") :
    decodeAdjM tag "parameters" vs [(tag, .str v.name false)] = some (i, []) ∧
    decodeAdjM tag "parameters" vs [(tag, .str v.name false), ("parameters", .null)] = some (i, []) ∧
    decodeAdjM tag "parameters" vs [(tag, .str v.name false), ("parameters", .obj [])] = some (i, []) := by
  have h1 : ("parameters" = tag) = False := by simp; exact fun e => htc e.symm
  refine ⟨?_, ?_, ?_⟩ <;> simp [decodeAdjM, count, lookup, hfind, hv, hl, htc, h1]

/-! ## Non-vacuity -/
namespace Example
def M : List Variant := [{ name := "x.A", fields := some [{ name := "v", ty := .str }] }, { name := "x.B", fields := none }]
example : findVariant M "x.A" = some (0, M[0]) := by decide
example : AllTyped [{ name := "v", ty := .str }] [.str "hello"] := ⟨trivial, trivial⟩
end Example
end C05
