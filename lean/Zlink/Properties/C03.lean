import Zlink.Proofs.Ser
import Zlink.Proofs.SerUtf8
import Zlink.Gen.Consts
/-! # C03 — The built-in JSON serializer is byte-identical to serde_json's compact output

Model: `Zlink/Model/Ser.lean` (`json_ser.rs`), with the escape table and hex digits **extracted from the
current source** (`Gen.escapeTable`, `Gen.hexDigits`). `Ser.render` is the reference compact-JSON
printer; that it coincides with serde_json's output is what the three-way correspondence run
(zlink vs serde_json vs model) checks on every run. -/
namespace C03
open Ser

/-- The tables of the current source. -/
def tbl : Tbl :=
  { esc := fun b => UInt8.ofNat (Gen.escapeTable.getD b.toNat 0),
    hexd := fun n => UInt8.ofNat (Gen.hexDigits.getD n 0) }

/-- **Regardless of how much buffer space was free**: for every value (with honest length hints) and
    every buffer length, `to_slice` yields exactly the reference rendering when it fits, reports the
    key error when the bytes before it fit, and `BufferTooSmall` otherwise — in particular the bytes
    never depend on the capacity. Holds for every escape table. -/
theorem C03_cap_independent (t : Tbl) (v : SVal) (hwf : WF v = true) (cap : Nat) :
    toSlice t v cap =
      if (render t v).1.length ≤ cap
      then (if (render t v).2 then .keyErr else .ok (render t v).1)
      else .tooSmall := by
  have := ser_resp t v hwf { out := [], cap := cap } (by simp)
  unfold toSlice
  rw [this]
  by_cases h : (render t v).1.length ≤ cap
  · by_cases hk : (render t v).2 = true <;> simp [h, hk]
  · simp [h]

/-- The Rust-shaped serializer (compound states, early close on `Some(0)`, run splitting, key
    serializer) computes the plain recursive reference printer. -/
theorem C03_model_eq_reference (t : Tbl) (v : SVal) (hwf : WF v = true) (hk : (render t v).2 = false) :
    toSlice t v (render t v).1.length = .ok (render t v).1 := by
  rw [C03_cap_independent t v hwf]; simp [hk]

/-- The extracted escape table, checked entry by entry (all 256): an entry is non-zero exactly for
    control characters, `"` and `\`; the five short escapes sit at 8, 9, 10, 12, 13; every other
    control character is `u`; `"` and `\` escape to themselves; `HEX_DIGITS` is lower-case hex. -/
theorem C03_escape_table :
    (∀ n, n < 256 → ((Gen.escapeTable.getD n 0 ≠ 0) ↔ (n < 32 ∨ n = 34 ∨ n = 92))) ∧
    Gen.escapeTable.length = 256 ∧
    Gen.escapeTable.getD 8 0 = 98 ∧ Gen.escapeTable.getD 9 0 = 116 ∧ Gen.escapeTable.getD 10 0 = 110 ∧
    Gen.escapeTable.getD 12 0 = 102 ∧ Gen.escapeTable.getD 13 0 = 114 ∧
    Gen.escapeTable.getD 34 0 = 34 ∧ Gen.escapeTable.getD 92 0 = 92 ∧
    (∀ n, n < 32 → (n = 8 ∨ n = 9 ∨ n = 10 ∨ n = 12 ∨ n = 13 ∨ Gen.escapeTable.getD n 0 = 117)) ∧
    Gen.hexDigits = [48, 49, 50, 51, 52, 53, 54, 55, 56, 57, 97, 98, 99, 100, 101, 102] := by
  decide +kernel

/-- Every byte of a string, whatever it is, is rendered by bytes ≥ 0x20: no raw control character
    (and no NUL) can reach the wire from string content. Checked over all 256 bytes of the extracted table. -/
theorem escByte_ge (n : Nat) (hn : n < 256) : (escByte tbl (UInt8.ofNat n)).all (fun x => decide (32 ≤ x)) = true := by
  revert n
  decide +kernel

theorem dec3_ge (n : Nat) (hn : n < 256) : (dec3 (UInt8.ofNat n)).all (fun x => decide (32 ≤ x)) = true := by
  revert n
  decide +kernel

def ge32 (l : List Byte) : Bool := l.all (fun x => decide (32 ≤ x))

theorem ge32_append (a b : List Byte) : ge32 (a ++ b) = (ge32 a && ge32 b) := by simp [ge32]
theorem ge32_cons (x : Byte) (a : List Byte) : ge32 (x :: a) = (decide (32 ≤ x) && ge32 a) := by simp [ge32]

theorem escByte_ge' (b : Byte) : ge32 (escByte tbl b) = true := by
  have := escByte_ge b.toNat (UInt8.toNat_lt b)
  simpa [ge32] using this

theorem dec3_ge' (b : Byte) : ge32 (dec3 b) = true := by
  have := dec3_ge b.toNat (UInt8.toNat_lt b)
  simpa [ge32] using this

theorem escape_ge (s : List Byte) : ge32 (escape tbl s) = true := by
  induction s with
  | nil => rfl
  | cons b r ih => simp only [escape, List.flatMap_cons] at *; rw [ge32_append, escByte_ge', ih]; rfl

theorem quoted_ge (s : List Byte) : ge32 (quoted tbl s) = true := by
  simp only [quoted, ge32_cons, ge32_append, escape_ge]; decide

theorem renderBytes_ge : ∀ (bs : List Byte) (first : Bool), ge32 (renderBytes first bs) = true := by
  intro bs
  induction bs with
  | nil => intro _; rfl
  | cons b r ih =>
    intro first
    simp only [renderBytes, ge32_append, dec3_ge', ih, Bool.and_true]
    cases first <;> decide

/-! Integer and float texts come from `itoa` / `ryu`: digits, sign, `.`, `e` — assumed to be ≥ 0x20. -/
mutual
def Clean : SVal → Bool
  | .int x => ge32 x
  | .float x => ge32 x
  | .some v => Clean v
  | .newtype v => Clean v
  | .variant _ v => Clean v
  | .seq _ items => CleanItems items
  | .map _ entries => CleanEntries entries
  | _ => true
def CleanItems : SList → Bool
  | .nil => true
  | .cons v r => Clean v && CleanItems r
def CleanEntries : SEntries → Bool
  | .nil => true
  | .cons k v r => Clean k && Clean v && CleanEntries r
end

theorem renderKey_ge : ∀ k, Clean k = true → ge32 (renderKey tbl k).1 = true
  | .str s, _ => by simpa [renderKey] using quoted_ge s
  | .int x, h => by
      simp only [Clean] at h
      simp only [renderKey, ge32_cons, ge32_append, h]; decide
  | .newtype v, h => by simpa [renderKey] using renderKey_ge v (by simpa [Clean] using h)
  | .bool _, _ => rfl
  | .float _, _ => rfl
  | .fnull, _ => rfl
  | .bytes _, _ => rfl
  | .unit, _ => rfl
  | .some _, _ => rfl
  | .variant _ _, _ => rfl
  | .seq _ _, _ => rfl
  | .map _ _, _ => rfl

mutual
theorem render_ge : ∀ v, Clean v = true → ge32 (render tbl v).1 = true
  | .bool true, _ => by decide
  | .bool false, _ => by decide
  | .int x, h => by simpa [render, Clean] using h
  | .float x, h => by simpa [render, Clean] using h
  | .fnull, _ => by decide
  | .unit, _ => by decide
  | .str s, _ => by simpa [render] using quoted_ge s
  | .bytes bs, _ => by
      simp only [render, ge32_cons, ge32_append, renderBytes_ge]; decide
  | .some v, h => by simpa [render] using render_ge v (by simpa [Clean] using h)
  | .newtype v, h => by simpa [render] using render_ge v (by simpa [Clean] using h)
  | .variant name v, h => by
      have hv := render_ge v (by simpa [Clean] using h)
      have hq := quoted_ge name
      simp only [render]
      split <;> simp only [ge32_cons, ge32_append, hv, hq] <;> decide
  | .seq _ items, h => by
      have hi := items_ge true items (by simpa [Clean] using h)
      simp only [render]
      split <;> simp only [ge32_cons, ge32_append, hi] <;> decide
  | .map _ entries, h => by
      have hi := entries_ge true entries (by simpa [Clean] using h)
      simp only [render]
      split <;> simp only [ge32_cons, ge32_append, hi] <;> decide
theorem items_ge : ∀ (first : Bool) items, CleanItems items = true → ge32 (renderItems tbl first items).1 = true
  | _, .nil, _ => rfl
  | first, .cons v r, h => by
      simp only [CleanItems, Bool.and_eq_true] at h
      have hv := render_ge v h.1
      have hr := items_ge false r h.2
      have hsep : ge32 (if first then [] else [44] : List Byte) = true := by cases first <;> decide
      simp only [renderItems]
      split <;> simp only [ge32_append, hv, hr, hsep] <;> rfl
theorem entries_ge : ∀ (first : Bool) es, CleanEntries es = true → ge32 (renderEntries tbl first es).1 = true
  | _, .nil, _ => rfl
  | first, .cons k v r, h => by
      simp only [CleanEntries, Bool.and_eq_true] at h
      have hk := renderKey_ge k h.1.1
      have hv := render_ge v h.1.2
      have hr := entries_ge false r h.2
      have hsep : ge32 (if first then [] else [44] : List Byte) = true := by cases first <;> decide
      simp only [renderEntries]
      split
      · simp only [ge32_append, hk, hsep]; rfl
      · split <;> simp only [ge32_append, ge32_cons, hk, hv, hr, hsep] <;> decide
end

/-- **No raw control character and no NUL inside an emitted document**, for every value whose
    number texts are printable: every emitted byte is ≥ 0x20. -/
theorem C03_no_raw_control (v : SVal) (hc : Clean v = true) :
    ∀ b ∈ (render tbl v).1, (32 : Byte) ≤ b := by
  have := render_ge v hc
  simpa [ge32] using this

/-- Hence a successful `to_slice` never emits a NUL: frames carry exactly one, the terminator. -/
theorem C03_no_nul (v : SVal) (hwf : WF v = true) (hc : Clean v = true) (cap : Nat) (bs : List Byte)
    (h : toSlice tbl v cap = .ok bs) : (0 : Byte) ∉ bs := by
  rw [C03_cap_independent tbl v hwf] at h
  split at h
  · split at h
    · cases h
    · cases h
      intro h0
      have := C03_no_raw_control v hc 0 h0
      exact absurd this (by decide)
  · cases h

/-- **Emitted documents are well-formed UTF-8** (unbounded): for every value whose strings and variant
    names are well-formed UTF-8 (they are Rust `str`s) and whose number texts are ASCII (`itoa`, `ryu`),
    the emitted bytes are well-formed UTF-8 — escaping rewrites ASCII bytes only, into ASCII, and copies
    every multi-byte sequence (checked on all 256 entries of the extracted table). -/
theorem C03_valid_utf8 (v : SVal) (hu : Utf8.U8ok v = true) : Utf8.valid (render tbl v).1 = true :=
  Utf8.render_valid v hu

/-- … and so is whatever `to_slice` hands to the transport, whatever the buffer length. -/
theorem C03_frames_valid_utf8 (v : SVal) (hwf : WF v = true) (hu : Utf8.U8ok v = true) (cap : Nat) (bs : List Byte)
    (h : toSlice tbl v cap = .ok bs) : Utf8.valid bs = true := by
  rw [C03_cap_independent tbl v hwf] at h
  split at h
  · split at h
    · cases h
    · cases h; exact C03_valid_utf8 v hu
  · cases h

/-- **Keys**: a map key that is not a string (incl. `char`, unit variant), an integer, or a newtype
    around one of those is refused — the entry is never mis-encoded. -/
def keyOK : SVal → Bool
  | .str _ => true
  | .int _ => true
  | .newtype v => keyOK v
  | _ => false

theorem renderKey_refuses (t : Tbl) : ∀ k, keyOK k = false → (renderKey t k).2 = true
  | .str _, h => by simp [keyOK] at h
  | .int _, h => by simp [keyOK] at h
  | .newtype v, h => by simpa [renderKey] using renderKey_refuses t v (by simpa [keyOK] using h)
  | .bool _, _ => rfl
  | .float _, _ => rfl
  | .fnull, _ => rfl
  | .bytes _, _ => rfl
  | .unit, _ => rfl
  | .some _, _ => rfl
  | .variant _ _, _ => rfl
  | .seq _ _, _ => rfl
  | .map _ _, _ => rfl

theorem C03_keys (t : Tbl) (k v : SVal) (rest : SEntries) (hint : Option Nat) (hk : keyOK k = false)
    (hwf : WF (.map hint (.cons k v rest)) = true) (cap : Nat) :
    toSlice t (.map hint (.cons k v rest)) cap = .keyErr ∨ toSlice t (.map hint (.cons k v rest)) cap = .tooSmall := by
  rw [C03_cap_independent t _ hwf]
  have : (render t (.map hint (.cons k v rest))).2 = true := by
    simp [render, renderEntries, renderKey_refuses t k hk]
  rw [this]
  by_cases h : (render t (.map hint (.cons k v rest))).1.length ≤ cap <;> simp [h]

/-! ## Non-vacuity -/
namespace Example
/-- `{"a\n":[1,"x"],"k":{"V":null}}` with honest hints -/
def v : SVal := .map (some 2) (.cons (.str [97, 10]) (.seq none (.cons (.int [49]) (.cons (.str [120]) .nil)))
  (.cons (.str [107]) (.variant [86] .unit) .nil))
example : WF v = true ∧ Clean v = true := by decide
example : (render tbl v).1 = "{\"a\\n\":[1,\"x\"],\"k\":{\"V\":null}}".toUTF8.toList := by decide +kernel
example : toSlice tbl v 29 = .tooSmall ∧ toSlice tbl v 30 = .ok (render tbl v).1 := by decide +kernel
end Example
end C03
