import Zlink.Model.Codegen
import Zlink.Spec.Idl
/-! # C15 — generated code speaks exactly the interface described by the IDL

The theorems are about `Codegen.genModule`, the model of `zlink-codegen/src/codegen.rs` (tied to the
source by the `cgdecl` correspondence on a compiled corpus, and by the extracted keyword / primitive
tables), composed with what the proxy macro (C12), serde's derives and the `ReplyError` derive make
of the generated declarations. They hold for **every** interface tree, any case converter included
(`snake` / `pascal` are opaque to the proofs): each wire name is either the Rust identifier when that
equals the IDL name, or an explicit rename carrying the IDL name. -/
namespace C15
open Idl Case Codegen SpecIdl

/-! ### names as the grammar admits them never begin with `r#` -/

theorem unraw_of_second (n : In) (h : n[1]? ≠ some 35) : unraw n = n := by
  unfold unraw
  split
  · next a b r =>
    have : b ≠ 35 := by simpa using h
    simp [this]
  · rfl

theorem unraw_of_fieldNameOK (n : In) (h : fieldNameOK n = true) : unraw n = n := by
  apply unraw_of_second
  match n, h with
  | [], _ => simp
  | [_], _ => simp
  | a :: b :: r, h =>
    intro hb
    have hb' : b = 35 := by simpa using hb
    subst hb'
    have ht : tailOK (35 :: r) = false := by
      unfold tailOK
      have h1 : Idl.isAlnum 35 = false := by decide
      have h2 : ((35 : UInt8) == 95) = false := by decide
      simp [h1, h2]
    simp [fieldNameOK, ht] at h

theorem unraw_of_typeNameOK (n : In) (h : typeNameOK n = true) : unraw n = n := by
  apply unraw_of_second
  match n, h with
  | [], _ => simp
  | [_], _ => simp
  | a :: b :: r, h =>
    intro hb
    have hb' : b = 35 := by simpa using hb
    subst hb'
    simp [typeNameOK, Idl.isAlnum, Idl.isAlpha, Idl.isDigit] at h

/-! ### every wire name is the IDL's -/

/-- the key under which a Rust identifier with `renameIf` travels is the IDL name -/
theorem wireKey_renameIf (rust idl : In) (h : unraw idl = idl) : wireKey rust (renameIf rust idl) = idl := by
  unfold wireKey renameIf
  by_cases e : rust = idl
  · simp [e, h]
  · simp [e]

/-- **method names**: the generated method is called by exactly `<interface>.<IDL method name>` -/
theorem C15_method_names (a : Iface) (m : Method) :
    methodWire (genModule a).iface (genMethod m) = a.name ++ [46] ++ m.name := by
  simp [methodWire, genModule, genMethod]

/-- **parameter names**: every parameter travels under its IDL name -/
theorem C15_param_names (f : Field) (h : fieldNameOK f.1 = true) :
    wireKey (genParam f).name (genParam f).rename = f.1 := by
  simp only [genParam]
  exact wireKey_renameIf _ _ (unraw_of_fieldNameOK _ h)

/-- **the whole parameter object** of a call: the members the IDL prescribes, for every argument
    list (absent nullable parameters are left out on both sides) -/
theorem C15_call_params {α : Type} (isNull : α → Bool) (ins : List Field) (args : List α)
    (h : ∀ f ∈ ins, fieldNameOK f.1 = true) :
    genCallParams isNull (ins.map genParam) args = specCallParams isNull ins args := by
  induction ins generalizing args with
  | nil => simp [genCallParams, specCallParams]
  | cons f fs ih =>
    cases args with
    | nil => simp [genCallParams, specCallParams]
    | cons v vs =>
      have hf := C15_param_names f (h f (by simp))
      have hopt : (genParam f).optional = isOptionalTy f.2.1 := by
        simp only [genParam, isOptionalTy]
      simp only [List.map_cons, genCallParams, specCallParams, hf, hopt]
      rw [ih vs (fun g hg => h g (by simp [hg]))]

/-- **field names** of custom types and error parameters -/
theorem C15_field_names (f : Field) (h : fieldNameOK f.1 = true) :
    wireKey (genField f).name (genField f).rename = f.1 := by
  simp only [genField]
  exact wireKey_renameIf _ _ (unraw_of_fieldNameOK _ h)

/-- **output names**: reply parameters are looked up under their IDL names -/
theorem C15_output_names (lt : Bool) (f : Field) (h : fieldNameOK f.1 = true) :
    wireKey (genOutputField lt f).name (genOutputField lt f).rename = f.1 := by
  simp only [genOutputField]
  exact wireKey_renameIf _ _ (unraw_of_fieldNameOK _ h)

/-- **enum values** are the IDL's spellings -/
theorem C15_variant_spelling (n : In) (vs : List (In × List In)) (cs : List In) (v : In × List In)
    (h : fieldNameOK v.1 = true) :
    ∀ ge, genType (.enm n vs cs) = .enm ge → variantWire ge (genVariant v) = v.1 := by
  intro ge hge
  simp only [genType, GType.enm.injEq] at hge
  subst hge
  simp only [variantWire, genVariant, renameIf]
  by_cases e : typeIdent v.1 = v.1
  · simp [e, unraw_of_fieldNameOK _ h]
  · simp [e]

/-- **error names**: the derive (de)serialises each error as `<interface>.<IDL error name>` -/
theorem C15_error_names (a : Iface) (e : Err) :
    errorWire (genModule a).errors (genErr e) = a.name ++ [46] ++ e.name := by
  simp only [errorWire, genModule, genErr, renameIf]
  by_cases h : typeIdent e.name = e.name
  · simp [h]
  · simp [h]

/-! ### keywords -/

/-- whatever the name, the emitted identifier is not a bare keyword … -/
theorem C15_keywords (n : In) : isKeyword (safeIdent n) = false ∨ (∃ k, safeIdent n = [114, 35] ++ k ∧ notRaw k = false) := by
  unfold safeIdent
  by_cases h1 : notRaw n = true
  · left
    simp only [h1, if_true]
    have : ∀ k ∈ Gen.notRawKeywords, isKeyword (k ++ [95]) = false := by decide +kernel
    exact this n (by simpa [notRaw] using h1)
  · by_cases h2 : isKeyword n = true
    · right
      exact ⟨n, by simp [h1, h2], by simpa using h1⟩
    · left
      simp [h1, h2]

/-- … and the keywords rustc refuses as raw identifiers are all in the extracted `matches!` list -/
theorem C15_not_raw_table :
    [[115, 101, 108, 102], [83, 101, 108, 102], [115, 117, 112, 101, 114], [99, 114, 97, 116, 101]].all
      (fun k => Gen.notRawKeywords.contains k) = true := by decide +kernel

/-- the strict and reserved keywords of the 2018+ editions (`as` … `while`, `async`, `await`, `dyn`,
    `abstract` … `yield`, `try`) and `gen`, as bytes -/
def editionKeywords : List In :=
  [[97, 115], [98, 114, 101, 97, 107], [99, 111, 110, 115, 116], [99, 111, 110, 116, 105, 110, 117, 101], [99, 114, 97, 116, 101], [101, 108, 115, 101], [101, 110, 117, 109], [101, 120, 116, 101, 114, 110], [102, 97, 108, 115, 101], [102, 110], [102, 111, 114], [105, 102], [105, 109, 112, 108], [105, 110], [108, 101, 116], [108, 111, 111, 112], [109, 97, 116, 99, 104], [109, 111, 100], [109, 111, 118, 101], [109, 117, 116], [112, 117, 98], [114, 101, 102], [114, 101, 116, 117, 114, 110], [115, 101, 108, 102], [83, 101, 108, 102], [115, 116, 97, 116, 105, 99], [115, 116, 114, 117, 99, 116], [115, 117, 112, 101, 114], [116, 114, 97, 105, 116], [116, 114, 117, 101], [116, 121, 112, 101], [117, 110, 115, 97, 102, 101], [117, 115, 101], [119, 104, 101, 114, 101], [119, 104, 105, 108, 101], [97, 115, 121, 110, 99], [97, 119, 97, 105, 116], [100, 121, 110], [97, 98, 115, 116, 114, 97, 99, 116], [98, 101, 99, 111, 109, 101], [98, 111, 120], [100, 111], [102, 105, 110, 97, 108], [109, 97, 99, 114, 111], [111, 118, 101, 114, 114, 105, 100, 101], [112, 114, 105, 118], [116, 121, 112, 101, 111, 102], [117, 110, 115, 105, 122, 101, 100], [118, 105, 114, 116, 117, 97, 108], [121, 105, 101, 108, 100], [116, 114, 121], [103, 101, 110]]

/-- every one of them is in the keyword table extracted from the current source -/
theorem C15_keyword_table : editionKeywords.all (fun k => isKeyword k) = true ∧ editionKeywords.length = 52 := by
  decide +kernel

/-! ### the type tables -/

/-- the Rust type chosen for a field has exactly the JSON shape the IDL declares (inline structs
    widened to any value, inline enums to any string) — for every IDL type, in all four tables -/
theorem C15_type_table : ∀ t : Ty,
    (typeToRust t).shape = idlShape t ∧ (typeToRustParamElem t).shape = idlShape t ∧
    (typeToRustParam t).shape = idlShape t ∧ (typeToRustOutput t).shape = idlShape t
  | .bool | .int | .float | .string | .object | .struct _ | .enum _ | .custom _ => by
    simp [typeToRust, typeToRustParamElem, typeToRustParam, typeToRustOutput, RTy.shape, idlShape]
  | .array t | .map t | .optional t => by
    have ih := C15_type_table t
    simp [typeToRust, typeToRustParamElem, typeToRustParam, typeToRustOutput, RTy.shape, idlShape, ih.1, ih.2.1, ih.2.2.1, ih.2.2.2]

/-- an output struct gets its lifetime parameter (and a field its `#[serde(borrow)]`) exactly when
    the field type mentions `'a` — otherwise the module does not compile (unused lifetime / nothing
    to borrow) -/
theorem C15_output_lifetime : ∀ t : Ty, (typeToRustOutput t).hasA = typeNeedsLifetime t
  | .bool | .int | .float | .string | .object | .struct _ | .enum _ | .custom _ | .map _ => by
    simp [typeToRustOutput, RTy.hasA, typeNeedsLifetime]
  | .array t | .optional t => by
    simp [typeToRustOutput, RTy.hasA, typeNeedsLifetime, C15_output_lifetime t]

/-- the primitive rows of the four tables in the current source are the ones the model renders -/
theorem C15_prim_rows :
    Gen.cgPrimRows.all (fun r =>
      let t : Option Ty :=
        if r.2.1 = [66, 111, 111, 108] then some .bool else if r.2.1 = [73, 110, 116] then some .int
        else if r.2.1 = [70, 108, 111, 97, 116] then some .float else if r.2.1 = [83, 116, 114, 105, 110, 103] then some .string
        else if r.2.1 = [70, 111, 114, 101, 105, 103, 110, 79, 98, 106, 101, 99, 116] then some .object else none
      let strip (b : In) : In := b.filter (· != 32)
      match t with
      | none => false
      | some t =>
        if r.1 = [116, 121, 112, 101, 95, 116, 111, 95, 114, 117, 115, 116] then (typeToRust t).render = strip r.2.2
        else if r.1 = [116, 121, 112, 101, 95, 116, 111, 95, 114, 117, 115, 116, 95, 112, 97, 114, 97, 109] then (typeToRustParam t).render = strip r.2.2
        else if r.1 = [116, 121, 112, 101, 95, 116, 111, 95, 114, 117, 115, 116, 95, 112, 97, 114, 97, 109, 95, 101, 108, 101, 109] then (typeToRustParamElem t).render = strip r.2.2
        else (typeToRustOutput t).render = strip r.2.2) = true ∧ Gen.cgPrimRows.length = 20 := by
  decide +kernel

/-! ### why the explicit renames are needed, and non-vacuity -/

/-- `GetURL` does not survive snake_case + the macro's PascalCase: without the rename the call would
    go out as `GetUrl` (the defect repaired by 8f7271a) -/
theorem C15_rename_needed :
    macroPascal (snake [71, 101, 116, 85, 82, 76]) = [71, 101, 116, 85, 114, 108] ∧
    macroPascal (snake [71, 101, 116, 50, 70, 65]) = [71, 101, 116, 50, 70, 97] ∧
    serdeSnake (pascal [73, 80, 118, 54]) = [105, 95, 112, 118, 54] ∧
    pascal [78, 111, 116, 79, 75] = [78, 111, 116, 79, 107] := by decide +kernel

/-- `GetURL(hostName: string, self: ?int)`: Rust names `get_url`, `host_name`, `self_`; wire names as in the IDL -/
example :
    let f1 : Field := ([104, 111, 115, 116, 78, 97, 109, 101], .string, [])
    let f2 : Field := ([115, 101, 108, 102], .optional .int, [])
    (genParam f1).name = [104, 111, 115, 116, 95, 110, 97, 109, 101] ∧ (genParam f2).name = [115, 101, 108, 102, 95] ∧
    wireKey (genParam f1).name (genParam f1).rename = f1.1 ∧ wireKey (genParam f2).name (genParam f2).rename = f2.1 ∧
    fieldNameOK f1.1 = true ∧ fieldNameOK f2.1 = true := by decide +kernel

/-- a field called `type` becomes `r#type` and is found under `type` without a rename being needed … -/
example : (genField ([116, 121, 112, 101], .int, [])).name = [114, 35, 116, 121, 112, 101] ∧
    wireKey (genField ([116, 121, 112, 101], .int, [])).name (genField ([116, 121, 112, 101], .int, [])).rename = [116, 121, 112, 101] := by
  decide +kernel
end C15
