import Zlink.Proofs.IdlIfaceRT
import Zlink.Proofs.IdlNE2
import Zlink.Proofs.JsonStr
import Zlink.Model.IdlExchange
import Zlink.Proofs.IdlParsedOK
/-! # C14 — Rendering an interface description and parsing it back is the identity

Models: `Zlink/Model/IdlRender.lean` (the `Display` impls) and `Zlink/Model/Idl.lean` (the parser).

Status: **proved** for every well-formed description without commented enum variants
(`C14_parse_render`, `C14_render_fixpoint`: unbounded in nesting depth, numbers of members, fields,
variants and comments). The excluded class is exactly the known finding: an enum with a commented
variant renders in a multi-line form without commas that the parser rejects (pinned by four existing unit
tests); `C14_commented_variant_counterexample` proves that the model shares that behaviour. The
correspondence run ties the two models to the code (real `Display` text = model text, real parse = model
parse). Not covered by a theorem: the JSON string escaping of the GetInterfaceDescription exchange. -/
namespace C14
open Idl SpecIdl

/-- **Comments round-trip**: a rendered comment line is read back as exactly its content, and the
    parser stops right at the end of the line. -/
theorem C14_comment_roundtrip (c rest : In) (hok : commentOK c = true) :
    commentDef (renderComment c ++ 10 :: rest) = .ok c (10 :: rest) := commentDef_render c rest hok

/-- no custom enum of the description has a commented variant -/
def noVariantComments (a : Iface) : Bool :=
  a.types.all fun t => match t with | .enm _ vs _ => vs.all (fun v => v.2.isEmpty) | _ => true

/-- without commented variants the `Display` text is the reference text of C13 -/
theorem renderIface_eq_refText (a : Iface) (h : noVariantComments a = true) : renderIface a = refText a := by
  have : a.types.flatMap (fun t => ([10, 10] : In) ++ renderCT t) = a.types.flatMap (fun t => ([10, 10] : In) ++ refCT t) := by
    have hall : ∀ t ∈ a.types, renderCT t = refCT t := by
      intro t ht
      have := List.all_eq_true.mp h t ht
      exact renderCT_eq_refCT t (by cases t <;> simpa using this)
    generalize a.types = ts at hall
    induction ts with
    | nil => rfl
    | cons t r ih =>
      rw [List.flatMap_cons, List.flatMap_cons, hall t (by simp), ih (fun x hx => hall x (by simp [hx]))]
  simp only [renderIface, refText, this]

/-- **Render ∘ parse is the identity** (unbounded): every well-formed description without commented
    enum variants is recovered exactly from its `Display` text. -/
theorem C14_parse_render (a : Iface) (hok : ifaceOK a = true) (hvi : noVCI a = true)
    (hvc : noVariantComments a = true) : parseInterface (renderIface a) = .ok a := by
  rw [renderIface_eq_refText a hvc]
  exact parseInterface_ref a hok hvi

/-- **Rendering the parsed result reproduces the text**, comments included. -/
theorem C14_render_fixpoint (a : Iface) (hok : ifaceOK a = true) (hvi : noVCI a = true)
    (hvc : noVariantComments a = true) :
    ∃ b, parseInterface (renderIface a) = .ok b ∧ renderIface b = renderIface a :=
  ⟨a, C14_parse_render a hok hvi hvc, rfl⟩

/-- the reply frame of the exchange is opened again to exactly the text that went in -/
theorem decode_encode_reply (a : Iface) : IdlExchange.decodeReply (IdlExchange.encodeReply a) = some (renderIface a) := by
  unfold IdlExchange.decodeReply IdlExchange.encodeReply
  have h1 : IdlExchange.pre.isPrefixOf (IdlExchange.pre ++ Ser.quoted JsonStr.tbl (renderIface a) ++ IdlExchange.post) = true := by
    rw [List.append_assoc]; simp [List.isPrefixOf_iff_prefix]
  rw [if_pos h1]
  have h2 : (IdlExchange.pre ++ Ser.quoted JsonStr.tbl (renderIface a) ++ IdlExchange.post).drop IdlExchange.pre.length
      = Ser.quoted JsonStr.tbl (renderIface a) ++ IdlExchange.post := by
    rw [List.append_assoc, List.drop_left]
  simp only [h2, List.reverse_append]
  have h3 : IdlExchange.post.reverse.isPrefixOf (IdlExchange.post.reverse ++ (Ser.quoted JsonStr.tbl (renderIface a)).reverse) = true := by
    simp [List.isPrefixOf_iff_prefix]
  rw [if_pos h3]
  have h4 : (IdlExchange.post.reverse ++ (Ser.quoted JsonStr.tbl (renderIface a)).reverse).drop IdlExchange.post.length
      = (Ser.quoted JsonStr.tbl (renderIface a)).reverse := by
    have : IdlExchange.post.length = IdlExchange.post.reverse.length := by simp
    rw [this, List.drop_left]
  rw [h4, List.reverse_reverse]
  exact JsonStr.readQuoted_quoted _

/-- **The GetInterfaceDescription exchange** (unbounded): the description string the service writes —
    its `Display` text through the JSON string escaping of the current source's table, whatever bytes
    the comments contain — is read back by a JSON string reader to the same text, and parsing it
    yields exactly the description the service described. -/
theorem C14_exchange (a : Iface) (hok : ifaceOK a = true) (hvi : noVCI a = true)
    (hvc : noVariantComments a = true) : IdlExchange.exchange a = some (.ok a) := by
  unfold IdlExchange.exchange
  rw [decode_encode_reply, Option.map_some, C14_parse_render a hok hvi hvc]

/-- **Descriptions obtained by parsing round-trip** (every accepted text): whatever text the parser
    accepts, rendering the resulting description and parsing that rendering gives the same description
    back — e.g. a service that parses an IDL file and serves it through GetInterfaceDescription — provided
    the result has no commented custom-enum variant (the listed finding). The well-formedness hypotheses of
    `C14_parse_render` are *proved* for parser output here, not assumed - including that the parser returns no
    enum without variants (`C13_no_empty_enum`). -/
theorem C14_parsed_roundtrip (s : In) (a : Iface) (h : parseInterface s = .ok a)
    (hvc : noVariantComments a = true) :
    parseInterface (renderIface a) = .ok a ∧ IdlExchange.exchange a = some (.ok a) := by
  obtain ⟨hok, hvi⟩ := ifaceW_OK a (parseInterface_sound s a h) (parseInterface_ne s a h)
  exact ⟨C14_parse_render a hok hvi hvc, C14_exchange a hok hvi hvc⟩

/-- The full statement (kept visible): every well-formed description without commented enum variants
    is recovered from its rendering, and re-rendering reproduces the text. -/
def C14_statement : Prop :=
  ∀ a : Iface, ifaceOK a = true →
    (∀ t ∈ a.types, match t with | .enm _ vs _ => vs.all (fun v => v.2.isEmpty) | _ => true) →
    parseInterface (renderIface a) = .ok a

/-- The known finding, as a theorem about the model: an enum with one commented variant does not
    round-trip (`type E (a, b)` with a comment on `a`). -/
def d9 : Iface := { name := [97, 46, 98], cs := [], types := [.enm [69] [([97], [[99]]), ([98], [])] []], methods := [], errors := [] }
theorem C14_commented_variant_counterexample :
    ifaceOK d9 = true ∧ (match parseInterface (renderIface d9) with | .ok _ => false | .error => true) = true := by
  decide +kernel

/-! ## Non-vacuity -/
namespace Example
def roundTrips (t : Iface) : Bool :=
  match parseInterface (renderIface t) with
  | .ok a => renderIface a == renderIface t
  | .error => false
def tree : Iface :=
  { name := [111, 114, 103, 46, 101, 120, 97, 109, 112, 108, 101, 46, 120], cs := [[102, 105, 114, 115, 116, 32, 100, 111, 99, 32, 108, 105, 110, 101], [115, 101, 99, 111, 110, 100, 58, 32, 40, 119, 105, 116, 104, 41, 32, 112, 117, 110, 99, 116, 117, 97, 116, 105, 111, 110]],
    types := [.obj [84] [([97, 95, 98], .optional (.array .int), [[97, 98, 111, 117, 116, 32, 97, 95, 98]]), ([117], .struct [([105, 110, 110, 101, 114], .string, [[115, 101, 101, 32, 40, 120, 41, 58, 32, 121]])], [])] [[116, 104, 101, 32, 116, 121, 112, 101]],
              .enm [69] [([111, 110, 101], []), ([116, 119, 111], [])] [[97, 110, 32, 101, 110, 117, 109]]],
    methods := [⟨[77], [([120], .map (.custom [84]), [[112, 97, 114, 97, 109]])], [([114], .struct [], [])], [[100, 111, 101, 115, 32, 116, 104, 105, 110, 103, 115]]⟩],
    errors := [⟨[66, 97, 100], [([119, 104, 121], .enum [([112], []), ([113], [])], [])], []⟩] }
example : ifaceOK tree = true := by decide +kernel
example : roundTrips tree = true := by decide +kernel
/-- the theorem applied to the example tree (its hypotheses are satisfiable) -/
example : parseInterface (renderIface tree) = .ok tree :=
  C14_parse_render tree (by decide +kernel) (by decide +kernel) (by decide +kernel)
example : commentOK [116, 114, 32, 32] = true := by decide
end Example
end C14
