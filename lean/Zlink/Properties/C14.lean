import Zlink.Proofs.IdlLex
/-! # C14 — Rendering an interface description and parsing it back is the identity

Models: `Zlink/Model/IdlRender.lean` (the `Display` impls) and `Zlink/Model/Idl.lean` (the parser).

Status: the comment layer is proved; the full statement is kept as `C14_statement` and is, so far,
checked by the correspondence run (every generated tree: real `Display` text = model text, real parse =
model parse = original tree, re-rendering reproduces the text) and on kernel-evaluated examples. Known
finding: an enum with a commented variant renders in a multi-line form without commas that the parser
rejects (pinned by four existing unit tests). -/
namespace C14
open Idl SpecIdl

theorem takeWhile_ne_nl (c rest : In) (hc : c.contains 10 = false) :
    (c ++ 10 :: rest).takeWhile (· != 10) = c := by
  induction c with
  | nil => simp
  | cons a t ih =>
    simp only [List.contains_cons, Bool.or_eq_false_iff] at hc
    have ha : (a != 10) = true := by
      have := hc.1
      simp only [beq_eq_false_iff_ne, ne_eq] at this
      simp only [bne_iff_ne, ne_eq]
      exact fun e => this e.symm
    simp [List.takeWhile_cons, ha, ih hc.2]

/-- **Comments round-trip**: a rendered comment line is read back as exactly its content, and the
    parser stops right at the end of the line. -/
theorem C14_comment_roundtrip (c rest : In) (hok : commentOK c = true) :
    commentDef (renderComment c ++ 10 :: rest) = .ok c (10 :: rest) := by
  simp only [commentOK, Bool.and_eq_true, Bool.not_eq_true'] at hok
  obtain ⟨hnl, hlead⟩ := hok
  have hdrop : (c ++ 10 :: rest).dropWhile (fun x => x == 32 || x == 9) = c ++ 10 :: rest := by
    cases c with
    | nil => simp [List.dropWhile_cons]
    | cons a t =>
      have : (a == 32 || a == 9) = false := by
        by_cases h1 : a = 32
        · subst h1; simp at hlead
        · by_cases h2 : a = 9
          · subst h2; simp at hlead
          · simp [h1, h2]
      simp [List.dropWhile_cons, this]
  simp only [renderComment, commentDef, List.cons_append, List.nil_append, List.dropWhile_cons, beq_self_eq_true,
    Bool.true_or, if_true]
  rw [hdrop, takeWhile_ne_nl c rest hnl]
  simp

/-- The full statement (kept visible): every well-formed description without commented enum variants
    is recovered from its rendering, and re-rendering reproduces the text. -/
def C14_statement : Prop :=
  ∀ a : Iface, ifaceOK a = true →
    (∀ t ∈ a.types, match t with | .enm _ vs _ => vs.all (fun v => v.2.isEmpty) | _ => true) →
    parseInterface (renderIface a) = .ok a

/-- The known finding, as a theorem about the model: an enum with one commented variant does not
    round-trip (`type E (a, b)` with a comment on `a`). -/
def d9 : Iface := { name := [97, 46, 98], cs := [], types := [.enm [69] [([97], [[99]]), ([98], [])] []], methods := [], errors := [] }
theorem C14_commented_variant_counterexample :
    ifaceOK d9 = true ∧ (match parseInterface (renderIface d9) with | .ok _ => false | .error => true) = true := by
  decide +kernel

/-! ## Non-vacuity -/
namespace Example
def roundTrips (t : Iface) : Bool :=
  match parseInterface (renderIface t) with
  | .ok a => renderIface a == renderIface t
  | .error => false
def tree : Iface :=
  { name := [111, 114, 103, 46, 101, 120, 97, 109, 112, 108, 101, 46, 120], cs := [[102, 105, 114, 115, 116, 32, 100, 111, 99, 32, 108, 105, 110, 101], [115, 101, 99, 111, 110, 100, 58, 32, 40, 119, 105, 116, 104, 41, 32, 112, 117, 110, 99, 116, 117, 97, 116, 105, 111, 110]],
    types := [.obj [84] [([97, 95, 98], .optional (.array .int), [[97, 98, 111, 117, 116, 32, 97, 95, 98]]), ([117], .struct [([105, 110, 110, 101, 114], .string, [[115, 101, 101, 32, 40, 120, 41, 58, 32, 121]])], [])] [[116, 104, 101, 32, 116, 121, 112, 101]],
              .enm [69] [([111, 110, 101], []), ([116, 119, 111], [])] [[97, 110, 32, 101, 110, 117, 109]]],
    methods := [⟨[77], [([120], .map (.custom [84]), [[112, 97, 114, 97, 109]])], [([114], .struct [], [])], [[100, 111, 101, 115, 32, 116, 104, 105, 110, 103, 115]]⟩],
    errors := [⟨[66, 97, 100], [([119, 104, 121], .enum [([112], []), ([113], [])], [])], []⟩] }
example : ifaceOK tree = true := by decide +kernel
example : roundTrips tree = true := by decide +kernel
example : commentOK [116, 114, 32, 32] = true := by decide
end Example
end C14
