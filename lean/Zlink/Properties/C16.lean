import Zlink.Spec.Introspect
import Zlink.Proofs.IntroRT
import Zlink.Properties.C14
/-! # C16 — derived introspection describes the Rust type it was derived from

`Introspect` models the three derives and reads the std-type table **extracted from the current
source** (`Gen.introAtoms`, `Gen.introCtors`); `SpecIntro` states what the property demands, written
from its sentence. The theorems show they agree for every declaration. -/
namespace C16
open Idl Introspect SpecIntro

/-! ### the table of the current source is the table the property describes -/

/-- every `Type` impl for a std type without parameters yields the Varlink type the property names
    (integers → int, floats and time → float, strings, chars, paths, OS strings, addresses → string,
    unit → the empty object, `serde_json::Value` → object), and every type the property names has an impl -/
theorem C16_atoms :
    Gen.introAtoms.all (fun r => (primOfVariant r.2).isSome && decide (primOfVariant r.2 = lookupT r.1 atomTable)) = true ∧
    atomTable.all (fun r => (lookupT r.1 Gen.introAtoms).isSome) = true := by
  decide +kernel

/-- Option → `?`, sequences and sets → `[]`, string-keyed maps → `[string]`, wrappers transparent:
    for every constructor impl of the current source, and every constructor the property names has one -/
theorem C16_ctors :
    Gen.introCtors.all (fun r => (kindOfText r.2).isSome && decide (kindOfText r.2 = lookupT r.1 ctorTable)) = true ∧
    ctorTable.all (fun r => (lookupT r.1 Gen.introCtors).isSome) = true := by
  decide +kernel

/-- no std type is listed twice (a second entry would be shadowed) -/
theorem C16_tables_nodup :
    (Gen.introAtoms.map (·.1)).Nodup ∧ (Gen.introCtors.map (·.1)).Nodup ∧ (atomTable.map (·.1)).Nodup ∧ (ctorTable.map (·.1)).Nodup := by
  decide +kernel

/-! ### lifting the table to every type expression -/

theorem lookupT_mem {α : Type} (k : In) (v : α) : ∀ (l : List (In × α)), lookupT k l = some v → (k, v) ∈ l
  | [], h => by simp [lookupT] at h
  | (a, b) :: r, h => by
    unfold lookupT at h
    by_cases e : a = k
    · simp only [e, if_true, Option.some.injEq] at h
      simp [e, h]
    · rw [if_neg e] at h
      exact List.mem_cons_of_mem _ (lookupT_mem k v r h)

/-- two finite tables that agree entry by entry (in both directions) agree on every key -/
theorem tables_agree {α β : Type} [DecidableEq β] (f : α → Option β) (l1 : List (In × α)) (l2 : List (In × β))
    (h1 : l1.all (fun r => (f r.2).isSome && decide (f r.2 = lookupT r.1 l2)) = true)
    (h2 : l2.all (fun r => (lookupT r.1 l1).isSome) = true) (k : In) :
    (lookupT k l1).bind f = lookupT k l2 := by
  cases h : lookupT k l1 with
  | some v =>
    have hm := lookupT_mem k v l1 h
    have := List.all_eq_true.mp h1 (k, v) hm
    simp only [Bool.and_eq_true, decide_eq_true_eq] at this
    simpa using this.2
  | none =>
    cases h' : lookupT k l2 with
    | none => simp
    | some w =>
      have hm := lookupT_mem k w l2 h'
      have := List.all_eq_true.mp h2 (k, w) hm
      simp [h] at this

/-- **every Rust type expression** gets the Varlink type that corresponds to it — and a type the
    property's rules do not cover has no impl (it does not compile) -/
theorem C16_type_mapping (prev : List Ty) : ∀ t : RT, idlType prev t = specTy prev t
  | .atom n => by
    unfold idlType specTy
    rw [tables_agree primOfVariant _ _ C16_atoms.1 C16_atoms.2 n]
  | .ref i => by simp [idlType, specTy]
  | .app c t => by
    unfold idlType specTy
    rw [tables_agree kindOfText _ _ C16_ctors.1 C16_ctors.2 c, C16_type_mapping prev t]
    rfl

theorem trimDoc_eq (d : In) : trimDoc d = docComment d := rfl
theorem trimDocs_eq (ds : List In) : trimDocs ds = ds.map docComment := by
  simp [trimDocs, trimDoc_eq]

/-- **exactly the fields, in declaration order, under their Rust names**, each with the
    corresponding type, doc comments as comments -/
theorem C16_fields_exact (prev : List Ty) : ∀ fs : List FieldD, deriveFields prev fs = specFields prev fs
  | [] => by simp [deriveFields, specFields]
  | f :: r => by
    have ih := C16_fields_exact prev r
    unfold deriveFields
    rw [ih, C16_type_mapping]
    simp only [specFields, List.mapM_cons]
    cases specTy prev f.ty with
    | none => simp
    | some t =>
      cases hr : List.mapM (fun f => Option.map (fun t => (f.name, t, List.map docComment f.docs)) (specTy prev f.ty)) r with
      | none => simp [hr]
      | some fs => simp [hr, trimDocs_eq]

/-- corollary: names and order -/
theorem C16_field_names (prev : List Ty) (fs : List FieldD) (out : List Field)
    (h : deriveFields prev fs = some out) : out.map (·.1) = fs.map (·.name) := by
  induction fs generalizing out with
  | nil => simp [deriveFields] at h; simp [← h]
  | cons f r ih =>
    unfold deriveFields at h
    cases ht : idlType prev f.ty with
    | none => simp [ht] at h
    | some t =>
      cases hr : deriveFields prev r with
      | none => simp [ht, hr] at h
      | some fs' =>
        simp only [ht, hr, Option.some.injEq] at h
        subst h
        simp [ih fs' hr]

/-- a `CustomType` struct is described under its Rust name with exactly its fields, and referenced by name -/
theorem C16_custom_struct (prev : List Ty) (n : In) (docs : List In) (fs : List FieldD) :
    customTypeOf prev (.strct true n docs fs) = (specFields prev fs).map (fun x => CT.obj n x (docs.map docComment)) ∧
    typeOf prev (.strct true n docs fs) = some (.custom n) := by
  simp [customTypeOf, typeOf, C16_fields_exact, trimDocs_eq]

/-- enums list exactly their variants, in order, under their Rust names -/
theorem C16_enum_variants (prev : List Ty) (custom : Bool) (n : In) (docs : List In) (vs : List (In × List In)) :
    (customTypeOf prev (.enm true n docs vs) = some (CT.enm n (vs.map fun v => (v.1, v.2.map docComment)) (docs.map docComment))) ∧
    (typeOf prev (.enm custom n docs vs) = some (if custom then .custom n else .enum (vs.map fun v => (v.1, v.2.map docComment)))) := by
  cases custom <;> simp [customTypeOf, typeOf, trimDocs_eq]

/-! ### the assembled interface round-trips -/

/-- **An interface assembled from derived descriptions renders to text that parses back to an equal
    description** — for every module whose Rust names are legal Varlink names and whose doc lines are
    lines, outside the two classes `declOK` excludes: a documented enum variant (the listed finding: the
    multi-line enum form does not parse) and an `Option` directly around an `Option` (`??T` is not
    Varlink). Composition of `assemble_ok` (what the derives produce is well-formed) with the round-trip
    theorem of C14; re-rendering the parsed description reproduces the text, comments included. -/
theorem C16_assembled_roundtrip (name : In) (ds : List TypeD) (a : Iface)
    (hn : SpecIdl.ifaceNameOK name = true) (hds : ∀ d ∈ ds, declOK d = true) (h : assemble name ds = some a) :
    parseInterface (renderIface a) = .ok a ∧
    ∃ b, parseInterface (renderIface a) = .ok b ∧ renderIface b = renderIface a := by
  obtain ⟨hok, hvi, hpl⟩ := assemble_ok name ds a hn hds h
  have hvc : C14.noVariantComments a = true := by
    unfold C14.noVariantComments
    rw [List.all_eq_true] at hpl ⊢
    intro t ht
    have := hpl t ht
    cases t <;> simpa [enmPlain] using this
  exact ⟨C14.C14_parse_render a hok hvi hvc, C14.C14_render_fixpoint a hok hvi hvc⟩

/-- the two exclusions are needed: a documented enum variant is outside `declOK` -/
example : declOK (.enm true b!"Mode" [] [(b!"Idle", [b!" doc"]), (b!"Busy", [])]) = false := by decide +kernel
/-- ... and so is `Option<Box<Option<u8>>>` -/
example : rtOK (.app b!"Option" (.app b!"Box" (.app b!"Option" (.atom b!"u8")))) = false := by decide +kernel

/-- a module that meets the hypotheses: a `CustomType` struct and enum, a `Type` struct, an error enum with
    unit, struct and tuple variants, doc comments with surrounding blanks -/
def exampleModule : List TypeD :=
  [.strct true b!"Point" [b!" A point. "] [⟨b!"id", .atom b!"u32", [b!"  the id"]⟩,
      ⟨b!"tags", .app b!"Option" (.app b!"Vec" (.atom b!"String")), []⟩],
   .enm true b!"Mode" [b!" modes"] [(b!"Idle", []), (b!"Busy", [])],
   .strct false b!"Leaf" [] [⟨b!"m", .app b!"HashMap<&str>" (.app b!"Box" (.ref 1)), []⟩],
   .errs b!"E" [.unit b!"NotFound" [b!" nothing there"], .named b!"Invalid" [] [⟨b!"at", .ref 0, []⟩], .tuple b!"Other" [b!"x"] (.ref 2)]]
example : (∀ d ∈ exampleModule, declOK d = true) ∧ SpecIdl.ifaceNameOK b!"org.ex.M1" = true ∧
    (assemble b!"org.ex.M1" exampleModule).isSome = true := by
  refine ⟨?_, by decide +kernel, by decide +kernel⟩
  intro d hd
  simp only [exampleModule, List.mem_cons, List.mem_nil_iff, or_false] at hd
  rcases hd with h | h | h | h <;> subst h <;> decide +kernel

/-! ### non-vacuity: a concrete declaration -/

/-- `struct S { id: u32, tags: Option<Vec<String>>, m: HashMap<&str, Box<f32>>, u: () }` -/
example :
    deriveFields [] [⟨b!"id", .atom b!"u32", [b!" the id"]⟩, ⟨b!"tags", .app b!"Option" (.app b!"Vec" (.atom b!"String")), []⟩,
      ⟨b!"m", .app b!"HashMap<&str>" (.app b!"Box" (.atom b!"f32")), []⟩, ⟨b!"u", .atom b!"unit", []⟩] =
    some [(b!"id", .int, [b!"the id"]), (b!"tags", .optional (.array .string), []), (b!"m", .map .float, []), (b!"u", .struct [], [])] := by
  rfl

/-- a type without an impl (`Option<Foo>` for an unknown `Foo`, or `HashMap<u32, _>`) has no description -/
example : idlType [] (.app b!"Option" (.atom b!"Foo")) = none ∧ idlType [] (.app b!"HashMap<u32>" (.atom b!"bool")) = none := by
  constructor <;> rfl
end C16
