import Zlink.Proofs.Server
import Zlink.Proofs.ServerMid
import Zlink.Proofs.ServerQuiet
import Zlink.Proofs.ServerCredit
import Zlink.Properties.C08
/-! # C10 — Streaming replies are delivered in order and the connection resumes afterwards

Same model as C08. A streaming call (`Desc.sub n`) moves its connection from `conns` to `streams`
together with the service's items; each loop iteration with no call ready runs `SelectAll` over the streams'
`next()` futures from the rotated start and writes the item of the first stream that has one **ready**
(readiness is an environment event: `Ev.produce id n` lets the service's stream for client `id` hand over `n`
more results; a stream with nothing ready is pending and polling it changes nothing); an exhausted stream
hands its connection back to `conns` with its receive state untouched. -/
namespace C10
open Rx Srv

/-- **Stream order and flags**: at every moment, for every well-behaved streaming connection, what the
    client has been sent followed by the items still to come is exactly the reference — the service's
    items in order, each with the `continues` flag the service gave it (`itemsOf`), after the answers to
    the earlier calls. -/
theorem C10_stream_order (C : Consts) (hstep : 0 < C.step) (sizes : Nat → Nat)
    (evs : List Srv.Ev) (hev : Srv.EvsOK C sizes evs init) :
    ∀ p ∈ (runEvs C sizes evs init).streams, p.2.good = true →
      p.2.out ++ p.1.map tokOf = expectedOut (p.2.descs.take p.2.k) := by
  intro p hp hg
  exact ((C08.C08_refinement C hstep sizes evs hev).2 p hp hg).2.2

/-- The items of a streaming answer: `n` items numbered in order, all but the last marked continuing. -/
theorem C10_items (n pat : Nat) : answer (.sub n pat) = (List.range n).map (fun i => Tok.I i (flagOf pat n i)) := by
  simp [answer, itemsOf, tokOf, Function.comp_def]

/-- **Resumption**: the invariant `GInv` — which every loop iteration preserves (`Srv.iter_inv`) —
    covers a connection wherever it lives, so when a stream ends and its connection is pushed back to
    `conns`, it is there with its receive buffer and cursor intact and with `calls` = exactly the calls
    not yet consumed: calls pipelined behind the streaming call are answered next, in order, none lost
    (this is `C08_refinement` read at a later state). This lemma states the hand-back step itself. -/
theorem C10_resume (C : Consts) (hstep : 0 < C.step) (sizes : Nat → Nat) (s s' : S)
    (g : GInv C s) (h : iter C sizes s = some s') : GInv C s' :=
  iter_inv C hstep sizes s s' g h

/-- While a stream is open, calls on other connections take precedence: the stream branch is reached
    only when no connection has a call ready (`iter`: the scan comes first). Stated on the model: if the
    scan finds a ready connection, the iteration serves it and leaves every stream untouched. -/
theorem C10_others_served (C : Consts) (sizes : Nat → Nat) (s s' : S) (hq : s.listenQ = [])
    (idx : Nat) (o : Out) (c : Conn) (cs : List Conn)
    (hscan : (if s.conns.length = 0 then (s.conns, none) else
        scanCalls C sizes s.conns.length (match s.lastCall with | some i => i + 1 | none => 0) s.conns.length s.conns)
        = (cs, some (idx, o, c)))
    (h : iter C sizes s = some s') : s'.streams.length ≥ s.streams.length ∧ s'.lastStream = s.lastStream := by
  unfold iter at h
  rw [hq] at h
  simp only [] at h
  generalize hsc : (if s.conns.length = 0 then (s.conns, none) else
      scanCalls C sizes s.conns.length _ s.conns.length s.conns) = sc at h
  have hsc' : sc = (cs, some (idx, o, c)) := by rw [← hsc]; exact hscan
  subst hsc'
  simp only [] at h
  cases o with
  | pending => simp only [] at h; cases h; exact ⟨Nat.le_refl _, rfl⟩
  | err e => simp only [] at h; cases h; exact ⟨Nat.le_refl _, rfl⟩
  | frame f =>
    simp only [] at h
    cases hc : c.calls with
    | nil => rw [hc] at h; simp only [] at h; cases h; exact ⟨Nat.le_refl _, rfl⟩
    | cons d rest =>
      rw [hc] at h
      simp only [] at h
      cases d with
      | garbage => simp only [] at h; cases h; exact ⟨Nat.le_refl _, rfl⟩
      | sub m => simp only [] at h; cases h; exact ⟨by simp, rfl⟩
      | echo v ow =>
        simp only [] at h
        split at h
        · cases h; exact ⟨Nat.le_refl _, rfl⟩
        · split at h <;> cases h <;> exact ⟨Nat.le_refl _, rfl⟩
      | unser ow =>
        cases ow with
        | false => simp only [] at h; cases h; exact ⟨Nat.le_refl _, rfl⟩
        | true =>
          simp only [] at h
          split at h
          · cases h; exact ⟨Nat.le_refl _, rfl⟩
          · split at h <;> cases h <;> exact ⟨Nat.le_refl _, rfl⟩
      | fail ow =>
        simp only [] at h
        split at h
        · cases h; exact ⟨Nat.le_refl _, rfl⟩
        · split at h <;> cases h <;> exact ⟨Nat.le_refl _, rfl⟩


/-- **A call that is ready goes first.** If the scan of the connections finds one ready, whatever this iteration writes
    goes to that connection - never to a client with an open reply stream: the global write log grows by at most the
    winner's id. (With `C10_others_served`: an arrival while streams are being forwarded is answered before any stream
    forwards its next item - what the `SV2` runs observe on the real server's write order.) -/
theorem C10_ready_call_goes_first (C : Consts) (sizes : Nat → Nat) (s s' : S) (hq : s.listenQ = [])
    (idx : Nat) (o : Out) (c : Conn) (cs : List Conn)
    (hscan : (if s.conns.length = 0 then (s.conns, none) else
        scanCalls C sizes s.conns.length (match s.lastCall with | some i => i + 1 | none => 0) s.conns.length s.conns)
        = (cs, some (idx, o, c)))
    (h : iter C sizes s = some s') : s'.wlog = s.wlog ∨ s'.wlog = s.wlog ++ [c.id] := by
  unfold iter at h
  rw [hq] at h
  simp only [] at h
  generalize hsc : (if s.conns.length = 0 then (s.conns, none) else
      scanCalls C sizes s.conns.length _ s.conns.length s.conns) = sc at h
  have hsc' : sc = (cs, some (idx, o, c)) := by rw [← hsc]; exact hscan
  subst hsc'
  simp only [] at h
  cases o with
  | pending => simp only [] at h; cases h; exact Or.inl rfl
  | err e => simp only [] at h; cases h; exact Or.inl rfl
  | frame f =>
    simp only [] at h
    cases hc : c.calls with
    | nil => rw [hc] at h; simp only [] at h; cases h; exact Or.inl rfl
    | cons d rest =>
      rw [hc] at h
      simp only [] at h
      cases d with
      | garbage => simp only [] at h; cases h; exact Or.inl rfl
      | sub m => simp only [] at h; cases h; exact Or.inl rfl
      | unser ow =>
        cases ow with
        | false => simp only [] at h; cases h; exact Or.inl rfl
        | true =>
          simp only [] at h
          split at h
          · cases h; exact Or.inl rfl
          · split at h <;> cases h <;> first | exact Or.inl rfl | exact Or.inr rfl
      | echo v ow =>
        simp only [] at h
        split at h
        · cases h; exact Or.inl rfl
        · split at h <;> cases h <;> first | exact Or.inl rfl | exact Or.inr rfl
      | fail ow =>
        simp only [] at h
        split at h
        · cases h; exact Or.inl rfl
        · split at h <;> cases h <;> first | exact Or.inl rfl | exact Or.inr rfl

/-- **Arrivals while the server is busy are ordinary events.** `Srv.runMid` runs an event list in which bytes of one
    client arrive in the middle of a poll - at the moment another client's reply stream has handed over its `k`-th
    result (what the harness's trigger events do inside `poll_next`). Whatever the triggers are, the state it reaches
    is the state `runEvs` reaches on an ordinary event list (each poll cut into single iterations, the triggered
    arrivals between them): every theorem of C08 / C09 / C10 / C18 about `runEvs` speaks about such runs too. -/
theorem C10_mid_poll_arrivals_are_events (C : Consts) (sizes : Nat → Nat) (evs : List Srv.Ev) (trigs : List Srv.Trig) :
    ∃ evs', (runMid C sizes evs (init, trigs)).1 = runEvs C sizes evs' init :=
  runMid_is_run C sizes evs init trigs

/-- **While a stream is open other clients are served to completion.** In EVERY reachable state in which the
    server loop can make no progress — reply streams may be open, waiting for their service for as long as it
    likes — every well-behaved connection that is not itself streaming and whose bytes have all arrived has had
    **all** its calls answered, and every result any open stream had ready has been forwarded (its readiness
    is used up). An open, silent stream holds nobody up. -/
theorem C10_open_stream_blocks_nobody (C : Consts) (hstep : 0 < C.step) (sizes : Nat → Nat)
    (evs : List Srv.Ev) (hev : Srv.EvsOK C sizes evs init)
    (hidle : iter C sizes (runEvs C sizes evs init) = none) :
    let s := runEvs C sizes evs init
    (∀ p ∈ s.streams, p.2.credit = 0) ∧
    ∀ c ∈ s.conns, c.good = true → c.fut = [] → c.calls = [] ∧ c.out = expectedOut c.descs := by
  intro s
  have := C08.C08_quiescent C hstep sizes evs hev hidle
  exact ⟨this.2.1, this.2.2⟩

/-- A stream that has nothing ready is not touched by the loop, whatever else the iteration does: it is
    still in the stream list afterwards, same items to come, same connection state. -/
theorem C10_pending_stream_untouched (C : Consts) (sizes : Nat → Nat) (s s' : S)
    (h : iter C sizes s = some s') : ∀ p ∈ s.streams, p.2.credit = 0 → p ∈ s'.streams :=
  iter_streams_others_untouched C sizes s s' h

/-- Among several open streams the one served is `SelectAll`'s pick among those with a result ready, started
    right after the previous stream winner: the ready stream of minimal rotation distance (so a stream that
    always has items cannot starve another ready one: `Sel.no_double` applies verbatim). -/
theorem C10_stream_rotation (C : Consts) (sizes : Nat → Nat) (s s' : S) (hq : s.listenQ = [])
    (hnone : (if s.conns.length = 0 then (s.conns, none) else
        scanCalls C sizes s.conns.length (nextStart s) s.conns.length s.conns).2 = none)
    (h : iter C sizes s = some s') (w : Nat) (hw : s'.lastStream = some w) :
    streamReady s.streams w = true ∧ w < s.streams.length ∧
    ∀ x, x < s.streams.length → streamReady s.streams x = true →
      Sel.dist s.streams.length (streamStart s.lastStream) w ≤ Sel.dist s.streams.length (streamStart s.lastStream) x := by
  have hr := (iter_stream_rotation C sizes s s' hq hnone h).1
  rw [hw] at hr
  cases hsel : Sel.selectAll s.streams.length (some (streamStart s.lastStream)) (streamReady s.streams) with
  | none => rw [hsel] at hr; cases hr
  | some w' =>
    rw [hsel] at hr
    simp only [Option.map_some, Option.some.injEq] at hr
    subst hr
    have hn : 0 < s.streams.length := by
      rcases Nat.eq_zero_or_pos s.streams.length with h0 | h0
      · simp [Sel.selectAll, h0] at hsel
      · exact h0
    exact Sel.select_min _ _ _ hn _ hsel

/-- **Every result a service's stream made available is forwarded, and nothing it did not.** `granted` counts the
    results (items, or the end of the stream) a client's streams were ever allowed to hand over (`Ev.produce`), `used`
    those the server has taken. In EVERY reachable state no connection has had more taken than was made available; and
    when the server is idle, for every well-behaved client parked with an open stream, everything made available has been
    taken (`used = granted`) and the books balance exactly: what was made available, plus the items still to come, plus
    the end of the stream, is what the client's consumed calls are owed (`need` = items + 1 per streaming call) - so
    of the open stream precisely `granted - need(earlier calls)` items have been forwarded, no more, no fewer. -/
theorem C10_results_accounted (C : Consts) (hstep : 0 < C.step) (sizes : Nat → Nat)
    (evs : List Srv.Ev) (hev : Srv.EvsOK C sizes evs init) (hacct : Srv.EvsAcct evs) :
    let s := runEvs C sizes evs init
    (∀ c ∈ s.all, c.used ≤ c.granted) ∧
    (iter C sizes s = none → ∀ p ∈ s.streams, p.2.good = true →
        p.2.used = p.2.granted ∧ p.2.granted + p.1.length + 1 = need (p.2.descs.take p.2.k)) := by
  intro s
  have g := run_inv C hstep sizes evs init (ginv_init C) hev
  have a := run_ag C hstep sizes evs init (ginv_init C) ag_init hev hacct
  constructor
  · intro c hc
    simp only [S.all, List.mem_append, List.mem_map] at hc
    rcases hc with ((h | h) | ⟨p, hp, rfl⟩) | h
    · have := (a.conns c h).bal; omega
    · have := (a.listen c h).bal; omega
    · have := (a.streams p hp).bal; omega
    · have := a.dead c h; omega
  · intro hidle p hp hg
    have hcr := (iter_none C hstep sizes s g hidle).2.1 p hp
    have hb := (a.streams p hp).bal
    have hpos := (a.streams p hp).pos hg
    dsimp only at hpos
    constructor
    · omega
    · omega

/-- If the client becomes unwritable mid-stream only that subscription is dropped: every other
    connection keeps its invariant (instance of `iter_inv`; the dropped one goes to `dead`). -/
theorem C10_unwritable_drops_only_subscription (C : Consts) (hstep : 0 < C.step) (sizes : Nat → Nat) (s s' : S)
    (g : GInv C s) (h : iter C sizes s = some s') :
    ∀ (j : Nat) p, s'.streams[j]? = some p → CInvG C p.2 p.1 :=
  (iter_inv C hstep sizes s s' g h).streams

/-! ## Non-vacuity -/
namespace Example
def C : Consts := C08.Example.C
/-- one client: streaming call (3 items) with a plain call pipelined behind it; another client calls meanwhile -/
def a : Conn := C08.Example.conn 0 [[1], [2]] [.sub 3 0, .echo 5 false]
def b : Conn := C08.Example.conn 1 [[3]] [.echo 9 false]
def evs : List Srv.Ev := [.connect a, .connect b, .arrive 0 [1, 0, 2, 0], .run 3, .arrive 1 [3, 0], .run 50]
example : (runEvs C (fun _ => 100) evs init).all.map (fun c => (c.id, c.out)) =
    [(1, [.R 9]), (0, [.I 0 (some true), .I 1 (some true), .I 2 (some false), .R 5])] := by decide
/-- a stream that stays silent: client 0's streaming call is accepted, its service hands over one item and
    then nothing; client 1 is served to completion meanwhile, the server goes idle with the stream still open
    (hypotheses of `C10_open_stream_blocks_nobody`), and when the service produces again the rest follows and
    the pipelined call behind the stream is answered -/
def a0 : Conn := { a with credit := 0, granted := 0 }
def evs2 : List Srv.Ev := [.connect a0, .connect b, .arrive 0 [1, 0, 2, 0], .run 50, .produce 0 1, .arrive 1 [3, 0], .run 50]
example : (runEvs C (fun _ => 100) evs2 init).all.map (fun c => (c.id, c.out)) =
    [(1, [.R 9]), (0, [.I 0 (some true)])] := by decide
example : iter C (fun _ => 100) (runEvs C (fun _ => 100) evs2 init) = none
    ∧ (runEvs C (fun _ => 100) evs2 init).streams.length = 1 := by decide
example : (runEvs C (fun _ => 100) (evs2 ++ [.produce 0 3, .run 50]) init).all.map (fun c => (c.id, c.out)) =
    [(1, [.R 9]), (0, [.I 0 (some true), .I 1 (some true), .I 2 (some false), .R 5])] := by decide
/-- the accounting hypotheses are met by that run, and at its idle end the open stream of client 0 (3 items + end
    owed, 1 result made available) has forwarded exactly one item: 1 + 2 items to come + 1 = 4 -/
example : Srv.EvsAcct evs2 := by simp [Srv.EvsAcct, Srv.EvAcct, evs2, a0, a, b, C08.Example.conn]
example : (runEvs C (fun _ => 100) evs2 init).streams.map (fun p => (p.2.granted, p.2.used, p.1.length, need (p.2.descs.take p.2.k))) = [(1, 1, 2, 4)] := by decide
end Example
end C10
