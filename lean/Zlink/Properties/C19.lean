import Zlink.Model.Pipe
import Zlink.Properties.C01
import Zlink.Properties.C02
/-! # C19 — End to end over real Unix sockets (tokio and smol) nothing is lost or corrupted

Models: `Zlink/Model/Pipe.lean` (write-all loop over a partial-write byte FIFO) composed with the send path
(`Tx`, C02) and the receive path (`Rx`, C01). Kernel buffer sizes, fd inheritance and the runtimes'
scheduling are runtime facts: they are exercised by the correspondence run on real sockets only. -/
namespace C19
open Pipe

/-- **Partial writes lose nothing**: whatever prefix the kernel accepts at each call, the write-all
    loop hands the whole buffer to the pipe, in order. -/
theorem writeAll_flatten (accept : Nat → Nat) : ∀ (fuel : Nat) (buf : List Byte) (k : Nat),
    buf.length ≤ fuel → (writeAll accept fuel buf k).flatten = buf := by
  intro fuel
  induction fuel with
  | zero => intro buf k h; have : buf = [] := List.length_eq_zero_iff.mp (by omega); subst this; rfl
  | succ fuel ih =>
    intro buf k h
    unfold writeAll
    by_cases hb : buf = []
    · simp [hb]
    · rw [if_neg hb]
      have hpos : 0 < buf.length := List.length_pos_iff.mpr hb
      simp only [List.flatten_cons]
      rw [ih _ _ (by simp; omega), List.take_append_drop]

/-- sending each message with `send_*` issues one write `m ++ [0]` per message (abstract queue level) -/
theorem spec_sends (C : Tx.Consts) : ∀ (ms : List (List Byte)), (∀ m ∈ ms, m.length + 1 ≤ C.max) →
    (SpecTx.run C (ms.map fun m => Tx.Op.send (.ok m) true) []).2 = ms.map (· ++ [0]) := by
  intro ms
  induction ms with
  | nil => intro _; rfl
  | cons m r ih =>
    intro h
    have hm : m.length + 1 ≤ C.max := h m (by simp)
    have hstep : SpecTx.step C [] (.send (.ok m) true) = (.ok, some (m ++ [0]), []) := by
      simp [SpecTx.step, SpecTx.enqueue, SpecTx.flush, hm]
    simp only [List.map_cons, SpecTx.run, hstep]
    rw [ih (fun x hx => h x (by simp [hx]))]

/-- **C19 (end to end, no cancellation).** For every list of messages (non-empty, NUL-free, each below
    the limit), every partial-write behaviour of the sending socket, every read-size schedule of the
    receiving side and every buffer growth step: what the peer's successive receives return is exactly
    the messages sent, intact and in order, then end-of-stream. -/
theorem C19_e2e (CT : Tx.Consts) (M : Nat) (hs : 0 < CT.step) (hm : CT.max = M * CT.step) (hM : 1 ≤ M)
    (CR : Rx.Consts) (hrs : 0 < CR.step) (accept sizes : Nat → Nat)
    (ms : List (List Byte)) (hok : ∀ m ∈ ms, Rx.FrameOK m) (hfit : ∀ m ∈ ms, m.length + 1 ≤ CT.max)
    (hmax : (Rx.enc ms).length < CR.max) :
    let writes := (Tx.run CT (ms.map fun m => Tx.Op.send (.ok m) true) (Tx.init CT)).2
    let pipe := (writes.map fun w => (writeAll accept w.length w 0).flatten).flatten
    C01.receiveAll CR sizes id pipe (ms.length + 1) = ms.map (fun m => C01.Res.msg m) ++ [C01.Res.eof] := by
  intro writes pipe
  have hw : writes = ms.map (· ++ [0]) := by
    show (Tx.run CT _ (Tx.init CT)).2 = _
    rw [Tx.run_refines CT M _ (Tx.init CT) (Tx.inv_init CT M hs hm hM)]
    simpa [Tx.init] using spec_sends CT ms hfit
  have hp : pipe = Rx.enc ms := by
    show (writes.map fun w => (writeAll accept w.length w 0).flatten).flatten = _
    rw [hw]
    simp only [List.map_map]
    have : (fun w => (writeAll accept w.length w 0).flatten) ∘ (fun (m : List Byte) => m ++ [0]) = (fun m => m ++ [0]) := by
      funext m
      simp only [Function.comp]
      exact writeAll_flatten accept _ _ 0 (Nat.le_refl _)
    rw [this]; simp [Rx.enc, List.flatMap]
  rw [hp]
  simpa using C01.C01_framing CR hrs sizes id ms hok hmax 1

/-- **Connection identifiers are distinct** (a counter). -/
theorem C19_ids_distinct (base n : Nat) : (ids base n).Nodup := by
  simp [ids, List.nodup_range']

/-- **The cancellation clause is false of the code.** A flush abandoned after a partial write leaves
    its progress in the dropped future but the queue untouched: the next send writes the queue again
    from the start, so the peer sees a frame that was never sent (here `[1,2,1,2,3]`). -/
theorem C19_cancel_counterexample :
    let C : Tx.Consts := { step := 8, max := 64 }
    let s1 := (Tx.enqueue C (Tx.init C) (.ok [1, 2, 3])).2
    let (p1, s2) := flushCancelled s1 2
    let s3 := (Tx.enqueue C s2 (.ok [9])).2
    let pipe := p1 ++ s3.queued
    pipe = [1, 2, 1, 2, 3, 0, 9, 0] ∧ pipe ≠ Rx.enc [[1, 2, 3], [9]] := by
  decide

/-- What does hold: a send abandoned before anything was written corrupts nothing — the message
    stays queued and is delivered, once, with the next flush. -/
theorem C19_cancel_partial (C : Tx.Consts) (s : Tx.St) :
    (flushCancelled s 0).1 = [] ∧ (flushCancelled s 0).2 = s := by
  simp [flushCancelled, writeCancelled]

/-- **Where a send can be abandoned.** The write-all loop suspends only inside a socket write, i.e. while bytes
    are still owed: at every suspension point strictly fewer bytes than the buffer holds have been taken. There is
    no suspension point after the last byte (the loop ends and `flush` clears the queue without awaiting in
    between), so a frame the kernel took in full can never be counted as unsent: "each frame at most once" can only
    be broken by a *partial* write followed by a drop — the class of the listed finding — never by abandoning a
    send that had nothing left to write. (A transport that yields after its last write breaks exactly this; the
    `pollonce` runs on real sockets look for it.) -/
theorem C19_no_suspension_after_last_byte (accept : Nat → Nat) : ∀ (fuel : Nat) (buf : List Byte) (k done : Nat),
    ∀ c ∈ cutsBefore accept fuel buf k done, done ≤ c ∧ c < done + buf.length := by
  intro fuel
  induction fuel with
  | zero => intro buf k done c hc; simp [cutsBefore] at hc
  | succ fuel ih =>
    intro buf k done c hc
    unfold cutsBefore at hc
    by_cases hb : buf = []
    · simp [hb] at hc
    · rw [if_neg hb] at hc
      have hpos : 0 < buf.length := List.length_pos_iff.mpr hb
      simp only [List.mem_cons] at hc
      rcases hc with rfl | hc
      · omega
      · have := ih _ _ _ c hc
        simp only [List.length_drop] at this
        omega

/-- a send abandoned at any of its suspension points has written a proper prefix of the queue: the cut the
    cancellation theorems range over is never the whole queue -/
theorem C19_cancel_cut_is_proper (accept : Nat → Nat) (s : Tx.St) (c : Nat)
    (hc : c ∈ cutsBefore accept s.queued.length s.queued 0 0) :
    (flushCancelled s c).1.length < s.queued.length ∨ s.queued = [] := by
  have := (C19_no_suspension_after_last_byte accept _ s.queued 0 0 c hc).2
  left
  simp [flushCancelled, writeCancelled]
  omega

/-! ## Non-vacuity -/
namespace Example
example : (writeAll (fun k => k % 2) 5 [1, 2, 3, 4, 5] 0) = [[1], [2, 3], [4], [5]] := by decide
example : (cutsBefore (fun k => k % 2) 5 [1, 2, 3, 4, 5] 0 0) = [0, 1, 3, 4] := by decide
end Example
end C19
