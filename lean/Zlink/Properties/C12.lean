import Zlink.Model.Proxy
import Zlink.Properties.C04
/-! # C12 — Proxy-generated methods put exactly the declared call on the wire

Model: `Zlink/Model/Proxy.lean`. "For every trait the macro accepts" is approached by the corpus grammar
of the correspondence run; the theorems quantify over the declaration data type (every method name,
rename, flag, parameter list, argument list). -/
namespace C12
open Env Proxy

/-- **The call on the wire**: method `<interface>.<Name>` (PascalCase of the Rust name unless
    renamed), `parameters` present exactly when the method declares parameters, `more` / `oneway`
    exactly as annotated. -/
theorem C12_plain (m : MethodDecl) (args : List J) :
    ∃ ms, wirePlain m args = .obj ms ∧
      lookup "method" ms = some (.str (m.iface ++ "." ++ m.rename.getD (pascal m.rust)) false) ∧
      (hasKey "parameters" ms = !m.params.isEmpty) ∧
      (hasKey "more" ms = decide (m.flag = .more)) ∧ (hasKey "oneway" ms = decide (m.flag = .oneway)) := by
  refine ⟨_, rfl, ?_, ?_, ?_, ?_⟩
  · simp [lookup, wireMethodName]
  · cases hp : m.params.isEmpty <;> cases hf : m.flag <;> simp [hasKey, hp]
  · cases hp : m.params.isEmpty <;> cases hf : m.flag <;> simp [hasKey, hp]
  · cases hp : m.params.isEmpty <;> cases hf : m.flag <;> simp [hasKey, hp]

/-- arguments go under their declared wire names; a `None` argument is omitted -/
theorem C12_params (p : Param) (ps : List Param) (a : J) (as : List J) :
    paramMembers (p :: ps) (a :: as) =
      (if p.optional && (match a with | .null => true | _ => false) then [] else [(p.rename.getD p.name, a)]) ++
        paramMembers ps as := by
  cases hp : p.optional <;> cases a <;> simp [paramMembers, hp, wireParamName]

/-- **The chain-starting and chain-extending variants put the same call on the wire as the plain
    method** (for the methods they are generated for: not `oneway`; the extension not for `more`). -/
theorem C12_forms_agree (m : MethodDecl) (args : List J) :
    (m.flag ≠ .oneway → wireChain m args = wirePlain m args) ∧
    (m.flag = .none → wireExt m args = wirePlain m args) := by
  constructor
  · intro h; cases hf : m.flag <;> simp_all [wireChain, wirePlain]
  · intro h; simp [wireExt, wirePlain, h]

/-- **Replies are mapped exactly as the low-level receive classifies them**; the only addition is
    `MissingParameters` for a success without parameters when the method has outputs. In particular a
    reply with an `error` member is never `Ok(Ok(_))` (C04). -/
theorem C12_reply_mapping (svc : List Variant) (unitOut : Bool) (P : PShape) (E : List Variant) (j : J) :
    (mapReply svc unitOut P E j = .ok → classify svc P E j = .success) ∧
    (∀ i, mapReply svc unitOut P E j = .methodError i ↔ classify svc P E j = .methodError i) ∧
    (∀ i, mapReply svc unitOut P E j = .serviceError i ↔ classify svc P E j = .serviceError i) ∧
    (mapReply svc unitOut P E j = .decodeError ↔ classify svc P E j = .decodeError) := by
  unfold mapReply
  cases h : classify svc P E j <;> simp
  · split <;> simp

theorem C12_error_never_ok (svc : List Variant) (unitOut : Bool) (P : PShape) (E : List Variant) (ms : Members)
    (h : hasKey "error" ms = true) : mapReply svc unitOut P E (.obj ms) ≠ .ok := by
  intro hm
  have := (C12_reply_mapping svc unitOut P E (.obj ms)).1 hm
  exact C04.C04_error_never_success svc P E ms h this

/-! ## Non-vacuity -/
namespace Example
example : (splitUnderscore "get_url".toList).flatMap pascalWord = "GetUrl".toList := by decide
example : (splitUnderscore "get_2fa".toList).flatMap pascalWord = "Get2fa".toList := by decide
def m : MethodDecl :=
  MethodDecl.mk "org.ex" "get_url" none Flag.more
    [Param.mk "name" (some "theName") false, Param.mk "opt" none true]
example : paramMembers m.params [.str "n" false, .null] = [("theName", .str "n" false)] := rfl
example : m.flag ≠ .oneway := by decide
end Example
end C12
