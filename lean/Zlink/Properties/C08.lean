import Zlink.Proofs.Server
import Zlink.Proofs.ServerQuiet
import Zlink.Proofs.ServerOracle
import Zlink.Proofs.ServerWake
import Zlink.Proofs.SelectVisit
/-! # C08 — Server answers each call once, in order, on its own connection; oneway gets none

Model: `Zlink/Model/Server.lean` (`server/mod.rs`, `server/select_all.rs`) over the poll-level receive
model. The ghost fields of a connection record what its peer sends (`frames`, their meaning `descs`),
what has not arrived yet (`fut`) and how many calls the server has consumed (`k`). -/
namespace C08
open Rx Srv

/-- **C08 (refinement, full statement).** For EVERY sequence of connection arrivals, byte arrivals
    split anywhere, closes and polls of the server future, for any number of connections, and for every
    well-behaved connection wherever it currently lives (being read, accepted but not yet polled,
    streaming, or dropped): the server has consumed exactly the first `k` calls of that connection, in
    arrival order, each exactly once (`calls` = the rest, untouched), and what it wrote **to that
    connection** — plus the not-yet-written items of an open reply stream — is exactly the sequential
    reference's answers to those `k` calls: one reply or one error per call as the service decided,
    the service's stream items for a streaming call, nothing for a oneway call. -/
theorem C08_refinement (C : Consts) (hstep : 0 < C.step) (sizes : Nat → Nat)
    (evs : List Srv.Ev) (hev : Srv.EvsOK C sizes evs init) :
    let s := runEvs C sizes evs init
    (∀ c ∈ s.conns ++ s.listenQ ++ s.dead, c.good = true →
        c.k ≤ c.frames.length ∧ c.calls = c.descs.drop c.k ∧ c.out = expectedOut (c.descs.take c.k)) ∧
    (∀ p ∈ s.streams, p.2.good = true →
        p.2.k ≤ p.2.frames.length ∧ p.2.calls = p.2.descs.drop p.2.k ∧
        p.2.out ++ p.1.map tokOf = expectedOut (p.2.descs.take p.2.k)) := by
  have g := run_inv C hstep sizes evs init (ginv_init C) hev
  intro s
  constructor
  · intro c hc hg
    have hb : Book c [] := by
      rcases List.mem_append.mp hc with h | h
      · rcases List.mem_append.mp h with h | h
        · exact ((forall_pos_iff_mem _ _).mp g.conns c h hg).bk
        · exact (g.listen c h hg).bk
      · exact (g.dead c h hg).2
    exact ⟨hb.k_le, hb.calls, by simpa using hb.out⟩
  · intro p hp hg
    obtain ⟨j, hj⟩ := List.mem_iff_getElem?.mp hp
    have hb := (g.streams j p hj hg).bk
    exact ⟨hb.k_le, hb.calls, hb.out⟩

/-- **C08 (quiescence: every call is answered).** In EVERY reachable state in which the server loop
    cannot make progress (`Server::run` would return `Pending`: nothing to accept, no receive ready, no
    stream item to forward), nobody waits in the accept queue, no open reply stream has a result ready
    (everything the service made available has been forwarded; a stream whose service has nothing to hand
    over yet stays open and pending without holding anybody else up), and every
    well-behaved connection whose bytes have all arrived has had **all** its calls handled: nothing is
    left unread, and what it was sent is the sequential reference's answer to the whole script — each
    call answered exactly once, in order, oneway calls not at all. -/
theorem C08_quiescent (C : Consts) (hstep : 0 < C.step) (sizes : Nat → Nat)
    (evs : List Srv.Ev) (hev : Srv.EvsOK C sizes evs init)
    (hidle : iter C sizes (runEvs C sizes evs init) = none) :
    let s := runEvs C sizes evs init
    s.listenQ = [] ∧ (∀ p ∈ s.streams, p.2.credit = 0) ∧
    ∀ c ∈ s.conns, c.good = true → c.fut = [] → c.calls = [] ∧ c.out = expectedOut c.descs := by
  have g := run_inv C hstep sizes evs init (ginv_init C) hev
  intro s
  obtain ⟨h1, h2, h3⟩ := iter_none C hstep sizes s g hidle
  refine ⟨h1, h2, ?_⟩
  intro c hc hg hfut
  have hk := h3 c hc hg hfut
  obtain ⟨j, hj⟩ := List.mem_iff_getElem?.mp hc
  have inv := g.conns j c hj hg
  have hlen := inv.st.len
  constructor
  · rw [inv.bk.calls, hk, ← hlen]; simp
  · have := inv.bk.out
    rw [hk, ← hlen] at this
    simpa using this

/-- **The model satisfies the oracle that judges the implementation.** In EVERY reachable idle state, every well-behaved
    client - being read with all its bytes arrived, or parked with an open reply stream - has been sent exactly
    `SpecSrv.refOutCredit granted descs`: the sequential per-connection reference for its calls (one reply or error per call,
    nothing for a oneway call, a streaming call's items in order), cut where its reply streams were not allowed to hand over
    more (`granted` = the results made available by `Ev.produce`). `SpecSrv.connOK` - evaluated by the driver on what the real
    `Server::run` wrote to each client - demands exactly this of a complete, well-behaved connection. -/
theorem C08_model_satisfies_oracle (C : Consts) (hstep : 0 < C.step) (sizes : Nat → Nat)
    (evs : List Srv.Ev) (hev : Srv.EvsOK C sizes evs init) (hacct : Srv.EvsAcct evs)
    (hidle : iter C sizes (runEvs C sizes evs init) = none) :
    let s := runEvs C sizes evs init
    (∀ c ∈ s.conns, c.good = true → c.fut = [] → c.out = SpecSrv.refOutCredit c.granted c.descs) ∧
    (∀ p ∈ s.streams, p.2.good = true → p.2.out = SpecSrv.refOutCredit p.2.granted p.2.descs) :=
  idle_output_is_reference C hstep sizes evs hev hacct hidle

/-! ### The waker contract: nothing is lost when the server is polled only when woken

`Srv.runW` drives the same loop the way an executor does: the task is polled once when spawned and afterwards only
when its waker was woken; an event wakes it iff its source is one the parked server waits on (`Srv.wakes`: the
listener, the socket of a connection it is reading from, the reply stream of a parked client). `stalled` says that
an executed poll ran out of the model's fuel before every branch was pending (the loop itself has no such bound). -/

/-- **C08 (no lost wake-up).** After EVERY sequence of events, under wake-driven polling: if the server task is
    not scheduled, `Server::run` has nothing to do - its next poll would find every branch of the select pending.
    No arrival, connection, close or stream result is ever left waiting for a poll that will not come. -/
theorem C08_no_lost_wakeup (C : Consts) (sizes : Nat → Nat) (evs : List Srv.Ev) :
    let w := runW C sizes evs initW
    w.stalled = false → w.woken = false → iter C sizes w.s = none := by
  intro w hst hwk
  have := (runW_spec C sizes evs initW (parked_initW C sizes) hst).2
  exact iter_none_of_idle C sizes _ (this hst hwk)

/-- **C08 (wake-driven = eager).** Polling the server only when woken computes exactly the states that polling it
    after every event computes: every theorem about `runEvs` (refinement, quiescence, C09, C10, C18) is a theorem
    about the server under a real executor. -/
theorem C08_wake_driven (C : Consts) (sizes : Nat → Nat) (evs : List Srv.Ev)
    (hst : (runW C sizes evs initW).stalled = false) :
    (runW C sizes evs initW).s = runEvs C sizes evs init :=
  (runW_spec C sizes evs initW (parked_initW C sizes) hst).1

/-- **C08 (a parked server owes nothing).** Under wake-driven polling, whenever the server task is not scheduled,
    every well-behaved connection whose bytes have all arrived has had all its calls answered, exactly as the
    sequential reference prescribes - `C08_quiescent` without assuming that somebody keeps polling. -/
theorem C08_parked_all_answered (C : Consts) (hstep : 0 < C.step) (sizes : Nat → Nat)
    (evs : List Srv.Ev) (hev : Srv.EvsOK C sizes evs init) :
    let w := runW C sizes evs initW
    w.stalled = false → w.woken = false →
    w.s.listenQ = [] ∧ (∀ p ∈ w.s.streams, p.2.credit = 0) ∧
    ∀ c ∈ w.s.conns, c.good = true → c.fut = [] → c.calls = [] ∧ c.out = expectedOut c.descs := by
  intro w hst hwk
  have hidle := C08_no_lost_wakeup C sizes evs hst hwk
  have hs : w.s = runEvs C sizes evs init := C08_wake_driven C sizes evs hst
  rw [hs] at hidle ⊢
  exact C08_quiescent C hstep sizes evs hev hidle

/-- **A server that returns `Pending` has polled every source.** In a state in which `Server::run` parks, the scan of
    `get_next_call` (`SelectAll` over the connections' receives, started after the previous winner) has polled every
    connection, and the `SelectAll` over the reply streams has polled every stream: each of them holds the task's waker.
    This is why `Srv.wakes` may say that an arrival on any connection being read, and a result of any open stream, wakes
    the task. -/
theorem C08_parked_server_polled_everybody (C : Consts) (sizes : Nat → Nat) (s : S) (h : iter C sizes s = none) :
    (∀ j, j < s.conns.length →
      j ∈ Sel.visited s.conns.length (nextStart s) (readyOf C sizes s.conns) s.conns.length) ∧
    (∀ j, j < s.streams.length →
      j ∈ Sel.visited s.streams.length (streamStart s.lastStream) (streamReady s.streams) s.streams.length) := by
  obtain ⟨_, hc, hs⟩ := idle_of_iter_none C sizes s h
  constructor
  · intro j hj
    have hn : 0 < s.conns.length := by omega
    have hnone := scan_none_of_all_pending C sizes s.conns.length (nextStart s) hn s.conns rfl hc
    have hw := scanCalls_winner C sizes s.conns.length (nextStart s) hn s.conns s.conns.length (Nat.le_refl _) s.conns rfl
      (fun _ _ _ => rfl)
    rw [hnone] at hw
    exact Sel.scan_none_visits_all _ _ _ hn hw.symm j hj
  · intro j hj
    have hm : 0 < s.streams.length := by omega
    exact Sel.scan_none_visits_all _ _ _ hm (streamScan_none_of_dry s.streams _ hm hs) j hj

/-- **Events in the middle of a poll are events between polls.** A poll of the server that runs `a + b` iterations of its
    loop is a poll of `a` iterations followed by a poll of `b`; so bytes, connections, closes or stream results that turn
    up *while the server is busy* - after `a` iterations of one poll - are the event list `[run a, event, run b]`, which
    every theorem of C08, C09, C10 and C18 already quantifies over (they hold for every event list and every fuel). -/
theorem C08_poll_splits (C : Consts) (sizes : Nat → Nat) (a b : Nat) (ev : Srv.Ev) (s : S) :
    runEvs C sizes [.run (a + b)] s = runEvs C sizes [.run a, .run b] s ∧
    runEvs C sizes [.run a, ev, .run b] s = Srv.step C sizes (Srv.step C sizes (pollServer C sizes a s) ev) (.run b) := by
  constructor
  · simp only [runEvs, Srv.step]; exact pollServer_add C sizes a b s
  · simp only [runEvs, Srv.step]

/-- A call flagged oneway gets nothing, whatever the service answers. -/
theorem C08_oneway_silent (v : Nat) : answer (.echo v true) = [] ∧ answer (.fail true) = [] := ⟨rfl, rfl⟩

/-- A call that expects a reply gets exactly one reply or one error. -/
theorem C08_one_reply (v : Nat) : answer (.echo v false) = [.R v] ∧ answer (.fail false) = [.E] := ⟨rfl, rfl⟩

/-- Pipelined calls are each handled exactly once and in order: the output for `k` consumed calls is
    the concatenation of the per-call answers, call by call. -/
theorem C08_in_order (ds : List Desc) (d : Desc) : expectedOut (ds ++ [d]) = expectedOut ds ++ answer d := by
  simp [expectedOut, List.flatMap_append]

/-! ## Non-vacuity: a run with two well-behaved connections meets `EvsOK` -/
namespace Example
def C : Consts := { step := 8, max := 1000 }
def conn (id : Nat) (frames : List (List Byte)) (descs : List Desc) : Conn :=
  { id := id, rx := Rx.init C, net := net0, calls := descs, out := [], wfail := none, nwrites := 0, credit := 1000, granted := 1000,
    good := true, frames := frames, descs := descs, fut := enc frames, k := 0 }
def c0 : Conn := conn 0 [[1, 2], [3]] [.echo 7 false, .echo 8 true]
def c1 : Conn := conn 1 [[9]] [.sub 2 0]
def evs : List Srv.Ev := [.connect c0, .connect c1, .arrive 0 [1, 2, 0, 3], .run 50, .arrive 1 [9, 0], .arrive 0 [0], .run 50]
example : (runEvs C (fun _ => 100) evs Srv.init).all.map (fun c => (c.id, c.out)) =
    [(0, [.R 7]), (1, [.I 0 (some true), .I 1 (some false)])] := by decide
/-- the hypothesis of `C08_quiescent` is met by this run: after the last poll the server is idle -/
example : iter C (fun _ => 100) (runEvs C (fun _ => 100) evs Srv.init) = none := by decide
/-- … and the accounting hypothesis of `C08_model_satisfies_oracle` -/
example : Srv.EvsAcct evs := by simp [Srv.EvsAcct, Srv.EvAcct, evs, c0, c1, conn]
/-- wake-driven polling of the same events with two extra polls nobody asked for (the second `run` finds the task
    not scheduled and is skipped; the arrivals wake it again): no poll stalls, the task ends parked, same outputs -/
def evsW : List Srv.Ev := [.connect c0, .connect c1, .arrive 0 [1, 2, 0, 3], .run 50, .run 50, .arrive 1 [9, 0], .arrive 0 [0], .run 50, .run 50]
example : let w := runW C (fun _ => 100) evsW initW
    w.stalled = false ∧ w.woken = false ∧ w.s.all.map (fun c => (c.id, c.out)) =
    [(0, [.R 7]), (1, [.I 0 (some true), .I 1 (some false)])] := by decide
/-- an arrival for a client whose reply stream is open wakes nobody (the server does not read from it), a result of its
    stream does -/
example : let s := runEvs C (fun _ => 100) [.connect { c1 with credit := 1, granted := 1 }, .arrive 1 [9, 0], .run 50] Srv.init
    wakes s (.arrive 1 [5]) = false ∧ wakes s (.produce 1 1) = true ∧ wakes s (.produce 1 0) = false := by decide
end Example
end C08
