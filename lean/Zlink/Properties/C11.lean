import Zlink.Model.Alias
/-! # C11 — Data borrowed from a received reply is never overwritten while still usable

Model: `Zlink/Model/Alias.lean`. The full statement is **false of the code** (`ReplyStream` extends the
lifetime of the connection borrow unchecked: `reply_stream.rs`, so safe code can hold item k while
item k+1 is received into the same buffer). Kept as `C11_full_statement`; proved are the
counterexample and the part that does hold. Real undefined behaviour (reads through a dangling
reference after reallocation) cannot be exhibited by a model: the model shows the overwrite / the
reallocation, the correspondence run observes the changed bytes on the real code. -/
namespace C11
open Rx Alias

/-- the full statement: whatever is received later, an earlier view stays intact -/
def C11_full_statement : Prop :=
  ∀ (C : Consts) (sizes : Nat → Nat) (a : ASt) (e : Net) (v : View), Intact a v = true →
    Intact (apoll C sizes a e).2.1 v = true

/-- **Counterexample** (the known finding): two replies arriving in separate reads; the first item is
    held while the second is received: its bytes are overwritten. -/
theorem C11_counterexample :
    let C : Consts := { step := 16, max := 1000 }
    let e1 : Net := { avail := [70, 73, 82, 83, 84, 0], closed := false, k := 0 }     -- "FIRST\0"
    let r1 := apoll C (fun _ => 100) (ainit C) e1
    let e2 : Net := { r1.2.2.1 with avail := [50, 110, 100, 0] }                      -- "2nd\0"
    let r2 := apoll C (fun _ => 100) r1.2.1 e2
    (∃ v, r1.2.2.2 = some v ∧ Intact r1.2.1 v = true ∧ Intact r2.2.1 v = false) := by
  refine ⟨{ start := 0, len := 5, gen := 0, snap := [70, 73, 82, 83, 84] }, ?_⟩
  decide

/-- hence the full statement is false -/
theorem C11_full_statement_false : ¬ C11_full_statement := by
  intro h
  let C : Consts := { step := 16, max := 1000 }
  let e1 : Net := { avail := [70, 73, 82, 83, 84, 0], closed := false, k := 0 }
  let r1 := apoll C (fun _ => 100) (ainit C) e1
  let e2 : Net := { r1.2.2.1 with avail := [50, 110, 100, 0] }
  have := h C (fun _ => 100) r1.2.1 e2 { start := 0, len := 5, gen := 0, snap := [70, 73, 82, 83, 84] } (by decide)
  revert this
  decide

/-- **What does hold** (`_partial`): a receive that finds its frame already buffered (the previous one
    left `msg_pos > 0`: several replies arrived in one read) performs no transport read and touches
    neither the bytes nor the allocation: every outstanding view stays intact. So if all owed replies
    were buffered when the first was yielded, all items stay intact until the stream ends. -/
theorem C11_partial_all_buffered (C : Consts) (sizes : Nat → Nat) (a : ASt) (e : Net) (v : View)
    (hbuf : a.rx.msgPos > 0) (hv : Intact a v = true) :
    Intact (apoll C sizes a e).2.1 v = true := by
  unfold apoll
  simp only [hbuf, if_true]
  simpa [Intact] using hv

/-! ## Non-vacuity: two replies in one read — the first view survives the second receive -/
namespace Example
def C : Consts := { step := 16, max := 1000 }
def e : Net := { avail := [70, 73, 82, 0, 50, 110, 100, 0], closed := false, k := 0 }
example :
    let r1 := apoll C (fun _ => 100) (ainit C) e
    let r2 := apoll C (fun _ => 100) r1.2.1 r1.2.2.1
    r1.2.1.rx.msgPos > 0 ∧ r2.1 = .frame [50, 110, 100] ∧
      Intact r2.2.1 { start := 0, len := 3, gen := 0, snap := [70, 73, 82] } = true := by decide
end Example
end C11
