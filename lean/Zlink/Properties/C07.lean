import Zlink.Proofs.RxOracle
import Zlink.Proofs.RxWake
import Zlink.Proofs.RxWakeRun
/-! # C07 — Receiving is cancel-safe

Model: poll-level `Rx` (`Zlink/Model/Rx.lean`). An event list is an interleaving of byte arrivals,
the peer's close, and `poll` = *create a receive future, poll it once, drop it*. A future that is
polled again instead of dropped behaves identically because the future owns no state of its own
(`C07_state_only_in_connection`); the correspondence scenario `rx` exercises both (`P` and `Q`). -/
namespace C07
open Rx

/-- **C07 (safety, full statement).** For every frame list, every read-size schedule and every
    interleaving of partial arrivals, polls-that-are-abandoned and the close: every non-pending
    outcome is the next frame the peer sent — nothing lost, duplicated, reordered or corrupted —
    and end-of-stream is reported only once nothing is owed. -/
theorem C07_safe (C : Consts) (hstep : 0 < C.step) (sizes : Nat → Nat)
    (frames : List (List Byte)) (hF : ∀ f ∈ frames, FrameOK f) (hmax : (enc frames).length < C.max)
    (evs : List Ev) (hev : EvsOK evs (enc frames)) :
    Good (run C sizes evs (init C) net0) frames :=
  Rx.C07_safe C hstep sizes frames hF hmax evs hev

/-- **C07 (completeness).** Whatever happened before (any state satisfying the invariant that every
    event preserves), once all bytes have arrived a receive is never left pending while a frame is
    owed: it returns exactly the next owed frame. So the sequence eventually returned equals the
    sequence sent. -/
theorem C07_complete (C : Consts) (hstep : 0 < C.step) (sizes : Nat → Nat)
    (frames : List (List Byte)) (hF : ∀ f ∈ frames, FrameOK f) (hmax : (enc frames).length < C.max)
    (s : St) (e : Net) (done : List (List Byte)) (f : List Byte) (R' : List (List Byte))
    (hfr : frames = done ++ f :: R') (inv : Inv C frames s e [] done) :
    ∃ s' e', poll C sizes s e = (.frame f, s', e') ∧ Inv C frames s' e' [] (done ++ [f]) ∧
      e'.closed = e.closed :=
  poll_complete C hstep sizes frames hF hmax s e done f R' hfr inv

/-- Safety and completeness together, as the executable oracle evaluated on implementation runs. -/
theorem C07_oracle (C : Consts) (hstep : 0 < C.step) (sizes : Nat → Nat)
    (frames : List (List Byte)) (hF : ∀ f ∈ frames, FrameOK f) (hmax : (enc frames).length < C.max)
    (evs : List Ev) (hev : EvsOK evs (enc frames)) :
    SpecRx.holds frames evs (run C sizes evs (init C) net0) = true :=
  run_holds C hstep sizes frames hF hmax evs hev

/-- The reason it holds, stated outright: a poll of a receive future is a function of the
    connection's state and the transport alone, so dropping the future and creating a new one
    is indistinguishable from polling the old one again. -/
theorem C07_state_only_in_connection (C : Consts) (sizes : Nat → Nat) (evs₁ evs₂ : List Ev)
    (s : St) (e : Net) :
    run C sizes (evs₁ ++ evs₂) s e =
      run C sizes evs₁ s e ++
        run C sizes evs₂ (evs₁.foldl (fun p ev => ((step C sizes p.1 p.2 ev).2.1, (step C sizes p.1 p.2 ev).2.2)) (s, e)).1
                         (evs₁.foldl (fun p ev => ((step C sizes p.1 p.2 ev).2.1, (step C sizes p.1 p.2 ev).2.2)) (s, e)).2 := by
  induction evs₁ generalizing s e with
  | nil => simp [run]
  | cons ev evs ih =>
    simp only [List.cons_append, run, List.foldl_cons]
    rcases hst : step C sizes s e ev with ⟨o, s', e'⟩
    cases o with
    | none => simp only []; rw [ih]
    | some o => simp only [List.cons_append]; rw [ih]

/-- **A parked receive needs no polling.** A poll that ended pending has taken everything the transport held; polling
    the receive again before anything arrives is pending again and changes neither buffer, cursors nor transport. So an
    executor that polls a receive only when its waker has fired (every real one) produces, between two arrivals, the
    same state as one that polls it any number of times: the extra polls of the event lists above are no-ops, and
    abandoning a receive that is parked is abandoning it at a fixpoint. -/
theorem C07_parked_poll_is_noop (C : Consts) (sizes : Nat → Nat) (s : St) (e : Net)
    (h : (poll C sizes s e).1 = .pending) (n : Nat) :
    run C sizes (List.replicate n .poll) (poll C sizes s e).2.1 (poll C sizes s e).2.2 = List.replicate n .pending ∧
    (List.replicate n Ev.poll).foldl (fun p ev => ((step C sizes p.1 p.2 ev).2.1, (step C sizes p.1 p.2 ev).2.2))
      ((poll C sizes s e).2.1, (poll C sizes s e).2.2) = ((poll C sizes s e).2.1, (poll C sizes s e).2.2) := by
  have hfix := poll_pending_fix C sizes s e h
  induction n with
  | zero => exact ⟨rfl, rfl⟩
  | succ n ih =>
    constructor
    · simp only [List.replicate_succ, run, step, hfix]
      rw [ih.1]
    · simp only [List.replicate_succ, List.foldl_cons, step, hfix]
      exact ih.2

/-- **Under a wake-driven executor nothing is lost.** For every list of `rx` tokens - arrivals, close, polls of fresh
    receives (`p`), polls of the retained receive (`q`) and wake-driven polls (`w`: only if the receive's waker has fired
    since it was last polled) - the outcomes that are not `pending` are the same, in the same order, as when every `w`
    is an unconditional poll: the polls a real executor does not make are polls of a parked receive. (`resolveW` is what
    the driver runs for the harness's `W` cases; with `C07_safe` / `C07_complete` about the eager run, every message the
    peer sent is returned exactly once, in order, under a wake-driven executor too.) -/
theorem C07_wake_driven (C : Consts) (sizes : Nat → Nat) (ts : List DriverRx.RTok) :
    (run C sizes (DriverRx.resolveW C sizes ts (init C) net0 true false false) (init C) net0).filter (· != Out.pending) =
    (run C sizes (DriverRx.eagerW ts) (init C) net0).filter (· != Out.pending) :=
  DriverRx.resolveW_spec C sizes ts (init C) net0 true false false (DriverRx.winv_init C sizes _ _)

/-! ## Non-vacuity -/
namespace Example
def frames : List (List Byte) := [[123, 125], [91, 49, 93]]
def C : Consts := { step := 4, max := 64 }
/-- arrive `{`, poll (pending, abandoned), arrive `}\0[1`, poll, arrive `]\0`, close, poll ×3 -/
def evs : List Ev := [.arrive [123], .poll, .arrive [125, 0, 91, 49], .poll, .arrive [93, 0], .close, .poll, .poll, .poll]
example : EvsOK evs (enc frames) :=
  ⟨[125, 0, 91, 49, 93, 0], by decide, ⟨[93, 0], by decide, ⟨[], by decide, rfl, trivial⟩⟩⟩
example : run C (fun _ => 100) evs (init C) net0 =
    [.pending, .pending, .frame [123, 125], .frame [91, 49, 93], .err .eof] := by decide
/-- the premise of `C07_parked_poll_is_noop` is met after the first arrival: `{` alone is no frame, the poll is pending -/
example : (poll C (fun _ => 100) (init C) { net0 with avail := [123] }).1 = .pending := by decide
/-- a wake-driven run that skips polls: after the pending first poll the second `w` is skipped (nothing has arrived),
    the arrival fires the waker, the third `w` polls -/
example : (DriverRx.resolveW C (fun _ => 100) [.arrive [123], .w, .w, .arrive [125, 0], .w] (init C) net0 true false false).map
      (fun ev => match ev with | .poll => 1 | .arrive _ => 2 | .close => 3) = [2, 1, 2, 1] := by decide
end Example
end C07
