import Zlink.Model.Notified
import Zlink.Proofs.NotifiedRun
/-! # C20 — Notified state: subscribers converge on the latest value, in order

Model: `Zlink/Model/Notified.lean`. The channels are modelled (third-party); the theorems are about zlink's
adapters on top of them. -/
namespace C20
open Notified

/-- **The two runtimes agree**: the tokio adapter (explicit lag-skipping loop over a channel that
    reports `Lagged`) and the smol adapter (channel that skips overflowed values itself) are the same
    function of channel and receiver, whenever the receiver is not ahead of the channel. -/
theorem C20_runtimes_agree (c : Chan) (r : Rcv) (h : r.cursor ≤ c.seq) : pollTokio c r = pollSmol c r := by
  unfold pollTokio pollSmol recvSmol
  by_cases h1 : r.cursor = c.seq
  · simp [recvTokio, h1]
  · by_cases h2 : r.cursor + 1 < c.seq
    · have h3 : ¬ (c.seq - 1 = c.seq) := by omega
      have h4 : ¬ (c.seq - 1 + 1 < c.seq) := by omega
      have h5 : c.seq - 1 + 1 = c.seq := by omega
      simp [recvTokio, h1, h2, h3, h4, h5]
    · have h5 : r.cursor + 1 = c.seq := by omega
      simp [recvTokio, h1, h2, h5]

/-- One poll: nothing new ⇒ pending (never an end); something new ⇒ the **most recent** value, marked
    continuing, and the receiver is then up to date. -/
theorem C20_poll (c : Chan) (r : Rcv) (h : r.cursor ≤ c.seq) :
    pollSmol c r = (if r.cursor = c.seq then (.pending, r) else (.item c.last true, { cursor := c.seq })) := by
  unfold pollSmol recvSmol
  by_cases h1 : r.cursor = c.seq <;> simp [h1]

/-- **The subscription never ends while the state exists** and every item is marked continuing. -/
theorem C20_never_ends (c : Chan) (r : Rcv) (h : r.cursor ≤ c.seq) :
    (pollTokio c r).1 ≠ .ended ∧ (pollSmol c r).1 ≠ .ended ∧
    (∀ v b, (pollSmol c r).1 = .item v b → b = true) := by
  rw [C20_runtimes_agree c r h, C20_poll c r h]
  by_cases h1 : r.cursor = c.seq <;> simp [h1]

/-- **Convergence**: after any number of further `set`s, polling until pending leaves the subscriber
    with the most recent value: the first poll yields it, the second is pending. -/
theorem C20_converges (c : Chan) (r : Rcv) (h : r.cursor < c.seq) :
    (pollSmol c r).1 = .item c.last true ∧ (pollSmol c (pollSmol c r).2).1 = .pending := by
  have hne : ¬ r.cursor = c.seq := by omega
  simp [pollSmol, recvSmol, hne]

/-- **Order**: a value yielded by a poll is the value of the latest `set` at that moment, so the items a
    subscriber sees are a subsequence, in order, of the values set after it subscribed (later polls see
    later `set`s: the cursor only moves forward and always lands on the current end). -/
theorem C20_cursor_monotone (c : Chan) (r : Rcv) (h : r.cursor ≤ c.seq) :
    r.cursor ≤ (pollSmol c r).2.cursor ∧ (pollSmol c r).2.cursor ≤ c.seq := by
  rw [C20_poll c r h]
  by_cases h1 : r.cursor = c.seq <;> simp [h1]; omega

/-- a fresh subscriber sees nothing until the next `set` -/
theorem C20_subscribe_sees_later_only (c : Chan) : (pollSmol c c.subscribe).1 = .pending := by
  simp [pollSmol, recvSmol, Chan.subscribe]

/-- **Order, for whole histories.** For EVERY history of sets, subscriptions, polls of any subscriber and the end of the
    state, in both runtimes: the values handed to the subscriber created by the `(n+1)`-th `sub` are a subsequence, in
    order, of the values set *after* that `sub` - nothing from before it subscribed, nothing twice, nothing out of
    order; intermediate values may be skipped. -/
theorem C20_order (ops : List Op) (n : Nat) :
    (itemsOf n (run pollSmol ops init)).Sublist (setsAfterSub n ops) ∧
    run pollTokio ops init = run pollSmol ops init := by
  constructor
  · have := items_future ops init n
    simpa [init] using this
  · exact run_tokio_eq_smol ops init (by intro r hr; simp [init] at hr)

/-- **When the state goes away**: a value set before the last handle was dropped is still delivered (marked continuing),
    and only then does the subscription end - in both runtimes alike; a subscriber that was up to date ends at once. -/
theorem C20_after_close (c : Chan) (r : Rcv) (h : r.cursor ≤ c.seq) :
    pollClosed pollTokio c r = pollClosed pollSmol c r ∧
    pollClosed pollSmol c r = (if r.cursor = c.seq then (.ended, r) else (.item c.last true, { cursor := c.seq })) ∧
    (r.cursor < c.seq → (pollClosed pollSmol c (pollClosed pollSmol c r).2).1 = .ended) := by
  refine ⟨by unfold pollClosed; rw [C20_runtimes_agree c r h], ?_, ?_⟩
  · unfold pollClosed
    rw [C20_poll c r h]
    by_cases h1 : r.cursor = c.seq <;> simp [h1]
  · intro hlt
    have hne : ¬ r.cursor = c.seq := by omega
    simp [pollClosed, pollSmol, recvSmol, hne]

/-- **One-shot**: exactly one item marked final, then the end; a dropped notifier ends it at once. -/
theorem C20_once (v : Nat) :
    pollOnce (.notified v) = (.item v false, .terminated) ∧ pollOnce .terminated = (.ended, .terminated) ∧
    pollOnce .dropped = (.ended, .terminated) ∧ pollOnce .waiting = (.pending, .waiting) := by
  exact ⟨rfl, rfl, rfl, rfl⟩

/-! ## Non-vacuity -/
namespace Example
def ops : List Op := [.sub, .set 1, .set 2, .sub, .poll 0, .poll 1, .set 3, .poll 1, .poll 0, .poll 0]
example : run pollTokio ops init = [(0, .item 2 true), (1, .pending), (1, .item 3 true), (0, .item 3 true), (0, .pending)] := by decide
example : run pollSmol ops init = run pollTokio ops init := by decide
/-- `C20_order` on the history above: subscriber 1 (second `sub`) is handed 3; the values set after it subscribed are [3] -/
example : itemsOf 1 (run pollSmol ops init) = [3] ∧ setsAfterSub 1 ops = [3] ∧
    itemsOf 0 (run pollSmol ops init) = [2, 3] ∧ setsAfterSub 0 ops = [1, 2, 3] := by decide
/-- the state is dropped with a value the first subscriber has not seen: it gets the value, then the end; the other one,
    up to date, ends at once -/
example : run pollSmol [.sub, .sub, .set 1, .poll 1, .set 2, .poll 1, .close, .poll 0, .poll 0, .poll 1] init =
    [(1, .item 1 true), (1, .item 2 true), (0, .item 2 true), (0, .ended), (1, .ended)] := by decide
end Example
end C20
