import Zlink.Proofs.ServerFair
import Zlink.Proofs.ServerQuiet
import Zlink.Proofs.ServerFairRun
import Zlink.Proofs.SelectVisit
/-! # C18 — Round-robin service: a flooding client cannot starve the others

Models: `Zlink/Model/Select.lean` (`server/select_all.rs`: the rotated scan) and the server loop's use of it
(`Zlink/Model/Server.lean`: `scanCalls`, `lastCall := some idx`, next start `idx + 1`). -/
namespace C18
open Sel

/-- **A pending `SelectAll` has polled every future.** `Sel.visited` lists the indices `SelectAll::poll` polls, in
    order, up to and including the first ready one. If none is ready, every index is in the list: every connection's
    receive (every reply stream's `next()`) was polled in that round and holds the task's waker - a waiting call can
    only stay unserved because it has not arrived, never because nobody would notice it (the premise of `Srv.wakes`,
    C08_no_lost_wakeup). If one is ready, it is the last one polled: the round ends with the winner. -/
theorem C18_pending_polled_everybody (n start : Nat) (ready : Nat → Bool) (hn : 0 < n) :
    (scan n start ready n = none → ∀ x, x < n → x ∈ visited n start ready n) ∧
    (∀ w, scan n start ready n = some w → (visited n start ready n).getLast? = some w) :=
  ⟨scan_none_visits_all n start ready hn, fun w h => visited_last_is_winner n start ready n w h⟩

/-- three futures, none ready, start at 2: polled in the order 2, 0, 1 -/
example : visited 3 2 (fun _ => false) 3 = [2, 0, 1] := by decide
/-- future 0 ready: the round polls 2, then 0, and stops -/
example : visited 3 2 (fun i => i == 0) 3 = [2, 0] := by decide

/-- The scan returns the ready index of **minimal rotation distance** from the start index. -/
theorem C18_select_min (n start : Nat) (ready : Nat → Bool) (hn : 0 < n) (w : Nat)
    (h : selectAll n (some start) ready = some w) :
    ready w = true ∧ w < n ∧ ∀ x, x < n → ready x = true → dist n start w ≤ dist n start x :=
  select_min n start ready hn w h

/-- The server's `get_next_call` **is** that scan: over `n` open connections, the index that wins is the
    one `SelectAll` picks for the readiness function "this connection's receive would complete now"
    (polling an earlier, pending connection does not change any other connection's readiness). -/
theorem C18_scan_is_select (C : Rx.Consts) (sizes : Nat → Nat) (start : Nat) (cs : List Srv.Conn)
    (hn : 0 < cs.length) :
    (Srv.scanCalls C sizes cs.length start cs.length cs).2.map (·.1) =
      selectAll cs.length (some start) (Srv.readyOf C sizes cs) := by
  rw [Srv.scanCalls_winner C sizes cs.length start hn cs cs.length (Nat.le_refl _) cs rfl (fun _ _ _ => rfl)]
  simp [selectAll, Nat.ne_of_gt hn]

/-- **The server loop follows that rotation**: with nothing to accept, one iteration of `Server::run` serves
    exactly the connection `SelectAll` picks when started right after the previous winner and records it as
    the new previous winner, whatever else the iteration does with it (reply, error, drop, hand-over to a
    reply stream); when no connection is ready the previous winner is kept. So the sequence of connections
    the server serves is the `winners` sequence the fairness theorems below speak about. -/
theorem C18_server_rotation (C : Rx.Consts) (sizes : Nat → Nat) (s s' : Srv.S) (hq : s.listenQ = [])
    (hn : 0 < s.conns.length) (h : Srv.iter C sizes s = some s') :
    match selectAll s.conns.length (some (Srv.nextStart s)) (Srv.readyOf C sizes s.conns) with
    | some w => s'.lastCall = some w
    | none => s'.lastCall = s.lastCall :=
  Srv.iter_rotation C sizes s s' hq hn h

/-- **C18, first sentence (full statement for an unchanged connection set).** Consider any sequence of
    consecutive scans over the same `n` connections, each starting right after the previous winner, from
    the moment connection `a` was served (`start = a + 1`). If connection `b ≠ a` has a complete call
    waiting (is ready) at every one of those scans and is never served, then `a` is never served again
    either: the server does not serve two calls from one connection while another has been waiting
    the whole time — however many calls `a` has pipelined. -/
theorem C18_no_double_service (n a b : Nat) (hn : 0 < n) (ha : a < n) (hb : b < n) (hab : b ≠ a)
    (rs : List (Nat → Bool)) (hr : ∀ r ∈ rs, r b = true) (hnb : some b ∉ winners n (a + 1) rs) :
    some a ∉ winners n (a + 1) rs :=
  no_double_service n a b hn ha hb rs (a + 1) (after_win n a b hn ha hb hab) hr hnb

/-- **Bounded waiting within a phase** (connection set unchanged): a connection that stays ready is
    served after at most `n - 1` other calls; equivalently, if it has not been served during a phase,
    that phase saw fewer than `n` scans. -/
theorem C18_phase_bound (n b s : Nat) (hn : 0 < n) (hb : b < n) (rs : List (Nat → Bool))
    (hr : ∀ r ∈ rs, r b = true) (hnb : some b ∉ winners n s rs) : rs.length ≤ n - 1 := by
  rcases Nat.lt_or_ge (dist n s b) rs.length with h | h
  · exact absurd (bounded_wait n b hn hb rs s hr h) hnb
  · have := dist_lt n s b hn; omega

/-- **C18, second sentence.** Across connection closures and streaming transitions (each of which may
    renumber the connections: `swap_remove`, `push`), split the run into phases with an unchanged set.
    If the waiting connection is ready throughout and is not served in any of the `T + 1` phases, the
    total number of other calls served is at most `(T + 1) · (N - 1)` where `N` bounds the number of
    connections: it is served after a number of other calls bounded by connections × (transitions + 1). -/
theorem C18_bounded_bypass (N : Nat) :
    ∀ (phases : List (Nat × Nat × Nat × List (Nat → Bool))),   -- (n, index of the waiter, start, readiness per scan)
      (∀ p ∈ phases, 0 < p.1 ∧ p.1 ≤ N ∧ p.2.1 < p.1 ∧ (∀ r ∈ p.2.2.2, r p.2.1 = true) ∧
          some p.2.1 ∉ winners p.1 p.2.2.1 p.2.2.2) →
      (phases.map (fun p => p.2.2.2.length)).sum ≤ phases.length * (N - 1) := by
  intro phases
  induction phases with
  | nil => intro _; simp
  | cons p ps ih =>
    intro h
    obtain ⟨h1, h2, h3, h4, h5⟩ := h p (by simp)
    have hb := C18_phase_bound p.1 p.2.1 p.2.2.1 h1 h3 p.2.2.2 h4 h5
    have := ih (fun q hq => h q (by simp [hq]))
    simp only [List.map_cons, List.sum_cons, List.length_cons]
    have : p.1 - 1 ≤ N - 1 := by omega
    rw [Nat.succ_mul]
    omega


/-- **C18, first sentence, as a theorem about whole stretches of the server loop** (not about an abstract
    sequence of scans): connection `a` has just been served. Over ANY stretch of consecutive iterations of
    `Server::run` during which nothing is accepted and the connection list keeps its length (nobody removed,
    parked as a stream or handed back — `C18_positions_are_connections`: then the same clients sit at the same
    positions), if connection `b ≠ a` has a complete call waiting at every scan and is never the one served, then
    `a` is never served again either, however many calls it has pipelined or keeps sending. -/
theorem C18_server_no_double_service (C : Rx.Consts) (sizes : Nat → Nat) (n a b : Nat) (hn : 0 < n) (ha : a < n)
    (hb : b < n) (hab : b ≠ a) (s : Srv.S) (t : List Srv.S) (hrun : Srv.IsRun C sizes s t)
    (hlast : s.lastCall = some a)
    (hall : ∀ x ∈ s :: t, x.listenQ = [] ∧ x.conns.length = n)
    (hready : ∀ x ∈ (s :: t).dropLast, Srv.readyOf C sizes x.conns b = true)
    (hnb : ∀ x ∈ t, x.lastCall ≠ some b) : ∀ x ∈ t, x.lastCall ≠ some a :=
  Srv.server_no_double_service C sizes n a b hn ha hb hab s t hrun hlast hall hready hnb

/-- **C18, first sentence, in the property's own words**: `a` has just been served; over any stretch of consecutive
    iterations with an unchanged connection list (in reachable states: `GInv`), if the well-behaved client at position
    `b ≠ a` has had a *complete call waiting* the whole time - all its bytes arrived, a call not yet consumed - and has
    not been served, then `a` has not been served a second time. Readiness is no longer a hypothesis: it follows from the
    waiting call (`Rx.poll_complete`). -/
theorem C18_waiting_call_not_overtaken (C : Rx.Consts) (hstep : 0 < C.step) (sizes : Nat → Nat) (n a b : Nat) (hn : 0 < n)
    (ha : a < n) (hb : b < n) (hab : b ≠ a) (s : Srv.S) (t : List Srv.S) (hrun : Srv.IsRun C sizes s t)
    (hlast : s.lastCall = some a)
    (hall : ∀ x ∈ s :: t, x.listenQ = [] ∧ x.conns.length = n)
    (hinv : ∀ x ∈ (s :: t).dropLast, Srv.GInv C x)
    (hwait : ∀ x ∈ (s :: t).dropLast, ∃ c, x.conns[b]? = some c ∧ c.good = true ∧ c.fut = [] ∧ c.k < c.frames.length)
    (hnb : ∀ x ∈ t, x.lastCall ≠ some b) : ∀ x ∈ t, x.lastCall ≠ some a :=
  Srv.waiting_call_not_overtaken C hstep sizes n a b hn ha hb hab s t hrun hlast hall hinv hwait hnb

/-- **Bounded waiting on the server loop**: over such a stretch a connection with a call waiting at every scan
    is served after at most `n - 1` iterations (other calls). -/
theorem C18_server_phase_bound (C : Rx.Consts) (sizes : Nat → Nat) (n b : Nat) (hn : 0 < n) (hb : b < n)
    (s : Srv.S) (t : List Srv.S) (hrun : Srv.IsRun C sizes s t)
    (hall : ∀ x ∈ s :: t, x.listenQ = [] ∧ x.conns.length = n)
    (hready : ∀ x ∈ (s :: t).dropLast, Srv.readyOf C sizes x.conns b = true)
    (hnb : ∀ x ∈ t, x.lastCall ≠ some b) : t.length ≤ n - 1 :=
  Srv.server_phase_bound C sizes n b hn hb s t hrun hall hready hnb

/-- The service order of such a stretch **is** the `winners` sequence the abstract theorems speak about. -/
theorem C18_run_is_winners (C : Rx.Consts) (sizes : Nat → Nat) (n b : Nat) (hn : 0 < n) (hb : b < n)
    (s : Srv.S) (t : List Srv.S) (hrun : Srv.IsRun C sizes s t)
    (hall : ∀ x ∈ s :: t, x.listenQ = [] ∧ x.conns.length = n)
    (hready : ∀ x ∈ (s :: t).dropLast, Srv.readyOf C sizes x.conns b = true) :
    t.map (fun x => x.lastCall) = winners n (Srv.nextStart s) (Srv.readys C sizes (s :: t).dropLast) :=
  Srv.run_winners C sizes n b hn hb t s hrun hall hready

/-- While the connection list keeps its length, positions are connections. -/
theorem C18_positions_are_connections (C : Rx.Consts) (sizes : Nat → Nat) (s s' : Srv.S) (hq : s.listenQ = [])
    (h : Srv.iter C sizes s = some s') (hlen : s'.conns.length = s.conns.length) :
    s'.conns.map (·.id) = s.conns.map (·.id) :=
  Srv.iter_ids_stable C sizes s s' hq h hlen

/-! ## Non-vacuity: a flooder (index 0, always ready) and a single caller (index 2) -/
namespace Example
def flood : Nat → Bool := fun j => j == 0
def both : Nat → Bool := fun j => j == 0 || j == 2
/-- 0 has just been served; 2 becomes ready: it wins the very next scan, then 0 again. -/
example : winners 3 (0 + 1) [both, both, flood] = [some 2, some 0, some 0] := by decide

/-- the same on the server model: a flooder (client 0, four calls buffered) and a single caller (client 1);
    after the flooder's first call the single caller is served before the flooder's second one -/
def C : Rx.Consts := { step := 8, max := 1000 }
def mk (id : Nat) (frames : List (List Rx.Byte)) (descs : List Srv.Desc) : Srv.Conn :=
  { id := id, rx := Rx.init C, net := Rx.net0, calls := descs, out := [], wfail := none, nwrites := 0, credit := 0,
    good := true, frames := frames, descs := descs, fut := Rx.enc frames, k := 0 }
def flooder : Srv.Conn := mk 0 [[1], [2], [3], [4]] [.echo 1 false, .echo 2 false, .echo 3 false, .echo 4 false]
def single : Srv.Conn := mk 1 [[9]] [.echo 9 false]
def s0 : Srv.S := Srv.runEvs C (fun _ => 100) [.connect flooder, .connect single, .run 2, .arrive 0 [1, 0, 2, 0, 3, 0, 4, 0], .arrive 1 [9, 0], .run 1] Srv.init
def after (k : Nat) : Srv.S := Srv.pollServer C (fun _ => 100) k s0
example : s0.lastCall = some 0 ∧ (after 1).lastCall = some 1 ∧ (after 2).lastCall = some 0
    ∧ s0.conns.length = 2 ∧ (after 1).conns.length = 2 ∧ Srv.readyOf C (fun _ => 100) s0.conns 1 = true
    ∧ (Srv.iter C (fun _ => 100) s0).map (·.lastCall) = some (some 1) := by decide
end Example
end C18
