import Zlink.Proofs.RxBounds
import Zlink.Proofs.RxOracle
import Zlink.Proofs.RxPhases
import Zlink.Proofs.RxBoundsEv
import Zlink.Proofs.Tx
import Zlink.Gen.Consts
/-! # C17 — Buffers are bounded: oversized traffic is refused, smaller traffic accepted

Inbound: `Zlink/Model/Rx.lean`; outbound: `Zlink/Model/Tx.lean`. All theorems are parametric in the growth
step and in the limit (any positive multiple of the step); `consts_ok` shows that the constants
extracted from the current source (production limit and hook-lowered limit) are such values. -/
namespace C17
open Rx

/-- The receive buffer never grows beyond the limit, whatever arrives and however it is polled. -/
theorem C17_rx_cap_bounded (C : Consts) (M : Nat) (hs : 0 < C.step) (hm : C.max = M * C.step) (hM : 1 ≤ M)
    (sizes : Nat → Nat) (evs : List Ev) :
    (finalSt C sizes evs (init C) net0).1.cap ≤ C.max := by
  obtain ⟨⟨k, hk, _, hkM⟩, _⟩ := run_capInv C M hs hm sizes evs (init C) net0
    ⟨1, by simp [init], Nat.le_refl _, hM⟩ (by simp [init])
  rw [hk, hm]; exact Nat.mul_le_mul_right _ hkM

/-- **Accepted below the limit, whatever the size relative to the growth step**: a lone frame whose
    wire size (with terminator) is below the limit is delivered, for *every* positive growth step and
    every read-size schedule. -/
theorem C17_rx_accept (C : Consts) (hs : 0 < C.step) (sizes : Nat → Nat) (f : List Byte) (hf : FrameOK f)
    (hlt : f.length + 1 < C.max) :
    recvN C sizes 2 (init C) ⟨f ++ [0], true, 0⟩ = [.frame f, .err .eof] := by
  have h := recvN_frames C hs sizes [f] (by intro g hg; simp at hg; rw [hg]; exact hf)
    (by simp [enc]; omega) 1 [f] [] (init C) ⟨enc [f], true, 0⟩ (by simp) (inv_all_arrived C hs [f]) rfl
  simpa [enc] using h

/-- **Refused at the limit**: input whose first `max - 1` bytes contain no terminator (an oversized
    frame of wire size ≥ `max`, or unterminated garbage) makes the receive fail with `overflow`, and
    at that moment exactly `max` bytes are buffered — memory does not grow further. -/
theorem C17_rx_overflow (C : Consts) (M : Nat) (hs : 0 < C.step) (hm : C.max = M * C.step) (hM : 1 ≤ M)
    (sizes : Nat → Nat) (stream : List Byte) (closed : Bool)
    (hlen : C.max ≤ stream.length) (hnz : (0 : Byte) ∉ stream.take (C.max - 1)) :
    ∃ s' e', poll C sizes (init C) ⟨stream, closed, 0⟩ = (.err .overflow, s', e') ∧ s'.data.length = C.max := by
  obtain ⟨s', e', h1, h2⟩ := readLoop_overflow C M hs hm sizes (stream.length + 1) (init C) ⟨stream, closed, 0⟩
    (by simp) ⟨1, by simp [init], Nat.le_refl _, hM⟩ (by simp [init]; exact hs) (by simp [init]; exact hlen)
    (by simpa [init] using hnz)
  refine ⟨s', e', ?_, h2⟩
  unfold poll
  simp only [init, Nat.lt_irrefl, gt_iff_lt, if_false] at h1 ⊢
  rw [h1]

/-- The threshold, in one statement: a lone well-formed frame is delivered iff its wire size is below
    the limit; otherwise the receive reports `overflow`. -/
theorem C17_rx_threshold (C : Consts) (M : Nat) (hs : 0 < C.step) (hm : C.max = M * C.step) (hM : 1 ≤ M)
    (sizes : Nat → Nat) (f : List Byte) (hf : FrameOK f) :
    (poll C sizes (init C) ⟨f ++ [0], true, 0⟩).1 =
      if f.length + 1 < C.max then .frame f else .err .overflow := by
  by_cases hlt : f.length + 1 < C.max
  · rw [if_pos hlt]
    have := C17_rx_accept C hs sizes f hf hlt
    simp only [recvN] at this
    exact (List.cons.inj this).1
  · rw [if_neg hlt]
    obtain ⟨s', e', h1, _⟩ := C17_rx_overflow C M hs hm hM sizes (f ++ [0]) true (by simp; omega)
      (by
        intro h
        have : List.take (C.max - 1) (f ++ [0]) = List.take (C.max - 1) f := by
          rw [List.take_append_of_le_length (by omega)]
        rw [this] at h
        exact hf.2 (List.mem_of_mem_take h))
    rw [h1]

/-- **The verdict does not depend on what the connection carried before.** After any history of bursts,
    each handed out completely before the next arrives (any number, any total size, any chunking and
    polling), the buffer has some capacity between one step and the limit — and the next frame is delivered
    iff its wire size is below the limit, refused with `overflow` otherwise, exactly as on a fresh
    connection. -/
theorem C17_rx_threshold_any_history (C : Consts) (M : Nat) (hs : 0 < C.step) (hm : C.max = M * C.step) (hM : 1 ≤ M)
    (sizes : Nat → Nat) (ps : List Phase) (hps : ∀ p ∈ ps, PhaseOK C p)
    (hcons : AllConsumed ps (runPhases C sizes ps (init C) net0).1)
    (k : Nat) (f : List Byte) (hf : FrameOK f) :
    (poll C sizes (runPhases C sizes ps (init C) net0).2.1 ⟨f ++ [0], true, k⟩).1 =
      if f.length + 1 < C.max then .frame f else .err .overflow := by
  obtain ⟨hi, hc, _, _⟩ := (phases_from_idle C M hs hm sizes ps (init C) net0 hps (init_idle C)
    ⟨1, by simp [init], Nat.le_refl _, hM⟩ rfl rfl).2 hcons
  exact threshold_from_idle C M hs hm sizes _ hi hc k f hf

/-- **Oversized or unterminated input that arrives piece by piece, with polls in between** — on a fresh
    connection (`ps = []`) or after any history of consumed bursts: every poll before `max` bytes have
    arrived stays pending, the first poll after that reports `overflow` (this is the executable oracle the
    harness evaluates on the implementation's observations in scenario `rx-bounds`, for every event
    sequence; what happens after the overflow is not constrained). -/
theorem C17_rx_overflow_interleaved (C : Consts) (M : Nat) (hs : 0 < C.step) (hm : C.max = M * C.step) (hM : 1 ≤ M)
    (sizes : Nat → Nat) (ps : List Phase) (hps : ∀ p ∈ ps, PhaseOK C p)
    (hcons : AllConsumed ps (runPhases C sizes ps (init C) net0).1)
    (stream : List Byte) (hlen : C.max ≤ stream.length) (hnz : (0 : Byte) ∉ stream.take (C.max - 1))
    (evs : List Ev) (hev : EvsOK evs stream) :
    SpecRx.boundsConforms C.max evs
      (run C sizes evs (runPhases C sizes ps (init C) net0).2.1 (runPhases C sizes ps (init C) net0).2.2) 0 = true := by
  obtain ⟨hi, hc, ha, hcl⟩ := (phases_from_idle C M hs hm sizes ps (init C) net0 hps (init_idle C)
    ⟨1, by simp [init], Nat.le_refl _, hM⟩ rfl rfl).2 hcons
  have hcap : 0 < (runPhases C sizes ps (init C) net0).2.1.cap := by
    obtain ⟨j, hj, hj1, _⟩ := hc
    rw [hj]; exact Nat.mul_pos (by omega) hs
  have := run_boundsConforms C M hs hm sizes stream hlen hnz evs _ _ stream
    ⟨hi.2, hc, by rw [hi.1]; simpa using hcap, by rw [hi.1, ha]; simp, fun h => by rw [hcl] at h; cases h⟩ hev
  rw [hi.1, ha] at this
  simpa using this

/-- **Outbound threshold**: a message of `len` bytes submitted when `p` bytes are queued is accepted
    iff `p + len + 1 ≤ max`; otherwise it is refused with `overflow`, nothing is queued and nothing
    is written. (Via the refinement `Tx.run_refines`, this is the behaviour of the buffer-level code.) -/
theorem C17_tx_threshold (C : Tx.Consts) (M : Nat) (s : Tx.St) (inv : Tx.Inv C M s) (b : List Tx.Byte) :
    (Tx.enqueue C s (.ok b)).1 = (if s.queued.length + b.length + 1 ≤ C.max then Tx.Res.ok else Tx.Res.overflow) ∧
    (Tx.enqueue C s (.ok b)).2.queued =
      (if s.queued.length + b.length + 1 ≤ C.max then s.queued ++ b ++ [0] else s.queued) := by
  obtain ⟨h1, h2, _⟩ := Tx.enqueue_refines C M s inv (.ok b)
  rw [h1, h2]
  simp only [SpecTx.enqueue]
  by_cases hc : s.queued.length + b.length + 1 ≤ C.max <;> simp [hc]

/-- The write buffer never grows beyond the limit. -/
theorem C17_tx_cap_bounded (C : Tx.Consts) (M : Nat) (s : Tx.St) (inv : Tx.Inv C M s) (op : Tx.Op) :
    (Tx.step C s op).2.2.cap ≤ C.max := by
  obtain ⟨_, _, _, inv'⟩ := Tx.step_refines C M s inv op
  obtain ⟨k, hk, _, hkM⟩ := inv'.cap_eq
  rw [hk, inv'.max_eq]; exact Nat.mul_le_mul_right _ hkM

/-- The constants extracted from the current source satisfy the hypotheses. -/
theorem consts_ok :
    (0 < Gen.bufferSize) ∧ (∃ M, 1 ≤ M ∧ Gen.maxBufferSizeProd = M * Gen.bufferSize) ∧
    (∃ M, 1 ≤ M ∧ Gen.maxBufferSizeHook = M * Gen.bufferSize) := by
  refine ⟨by decide, ⟨Gen.maxBufferSizeProd / Gen.bufferSize, by decide, by decide⟩,
    ⟨Gen.maxBufferSizeHook / Gen.bufferSize, by decide, by decide⟩⟩

/-- the threshold at the **production** constants of the current source (100 MiB on the pinned tree):
    this is the closed form the production-build run (`zvrt prod`) is compared with -/
theorem C17_rx_threshold_prod (sizes : Nat → Nat) (f : List Byte) (hf : FrameOK f) :
    (poll ⟨Gen.bufferSize, Gen.maxBufferSizeProd⟩ sizes (init ⟨Gen.bufferSize, Gen.maxBufferSizeProd⟩) ⟨f ++ [0], true, 0⟩).1 =
      if f.length + 1 < Gen.maxBufferSizeProd then .frame f else .err .overflow :=
  C17_rx_threshold ⟨Gen.bufferSize, Gen.maxBufferSizeProd⟩ (Gen.maxBufferSizeProd / Gen.bufferSize)
    (by decide) (by decide) (by decide) sizes f hf

/-! ## Non-vacuity -/
namespace Example
def C : Consts := { step := 4, max := 8 }
example : (poll C (fun _ => 2) (init C) ⟨[1, 2, 3, 4, 5, 6, 0], true, 0⟩).1 = .frame [1, 2, 3, 4, 5, 6] := by decide
example : (poll C (fun _ => 2) (init C) ⟨[1, 2, 3, 4, 5, 6, 7, 0], true, 0⟩).1 = .err .overflow := by decide
example : (poll C (fun _ => 2) (init C) ⟨[1, 2, 3, 4, 5, 6, 7, 8, 9, 10], false, 0⟩).1 = .err .overflow := by decide
/-- a history that leaves the buffer grown (capacity 8 = the limit), then frames at the threshold -/
def hist : List Phase := [([[1, 2, 3, 4, 5]], [.arrive [1, 2, 3, 4, 5, 0], .poll])]
example : AllConsumed hist (runPhases C (fun _ => 2) hist (init C) net0).1 ∧ (runPhases C (fun _ => 2) hist (init C) net0).2.1.cap = 8 :=
  ⟨⟨by decide, trivial⟩, by decide⟩
example : (poll C (fun _ => 2) (runPhases C (fun _ => 2) hist (init C) net0).2.1 ⟨[1, 2, 3, 4, 5, 6, 0], true, 0⟩).1 = .frame [1, 2, 3, 4, 5, 6] := by decide
example : (poll C (fun _ => 2) (runPhases C (fun _ => 2) hist (init C) net0).2.1 ⟨[1, 2, 3, 4, 5, 6, 7, 0], true, 0⟩).1 = .err .overflow := by decide
/-- ten bytes without terminator arriving in three pieces with polls in between: pending, pending, overflow -/
example : run C (fun _ => 2) [.arrive [1, 2, 3], .poll, .arrive [4, 5, 6], .poll, .arrive [7, 8, 9, 10], .poll] (init C) net0 =
    [.pending, .pending, .err .overflow] := by decide
end Example
end C17
