import Zlink.Proofs.IdlIfaceRT
import Zlink.Proofs.IdlNE2
import Zlink.Proofs.IdlLayoutIface
import Zlink.Proofs.IdlSound
import Zlink.Proofs.IdlTextSound4
import Zlink.Gen.Consts
/-! # C13 — The IDL parser accepts exactly the Varlink grammar and builds the denoted tree

Model: `Zlink/Model/Idl.lean` + `parseInterface` in `Zlink/Model/IdlRender.lean` — a function-by-function port of
`zlink-core/src/idl/parse/mod.rs`. Oracle: `Zlink/Spec/Idl.lean` (the grammar's regular expressions for the
three name classes, tree well-formedness, a tokenizer for "nothing ignored").

Status: the lexical layer is proved exact for all three name classes; totality / absence of panics holds
by construction of the model (every slice and `unwrap` of the source is guarded; the correspondence run
checks that the real parser never panics on ≈ 65 000 legal, mutated, truncated and random texts per run).
The syntactic layer is proved in the completeness direction for the canonical layout: **every**
well-formed description — any names of the three regular languages, any nesting depth of `?`, `[]`,
`[string]`, inline structs and inline enums, any number of members, fields and variants, comments before
the interface, members, fields, parameters and custom-enum variants — is recovered exactly from its
reference text (`C13_complete`, proofs in `Zlink/Proofs/Idl{Ws,TypeRT,MemberRT,IfaceRT}.lean`).
Open (decided per explored text by the oracle and the correspondence only): arbitrary inter-token layout
other than the canonical one, and the soundness direction "whatever is accepted is in the grammar and
nothing of it is ignored" beyond the name lexers. -/
namespace C13
open Idl SpecIdl

/-- **Never panics, never loops**: parsing is a total function with two outcomes. -/
theorem C13_total (s : In) : parseInterface s = .error ∨ ∃ a, parseInterface s = .ok a := by
  cases h : parseInterface s with
  | error => left; rfl
  | ok a => right; exact ⟨a, rfl⟩

/-- **Type names are exactly `[A-Z][A-Za-z0-9]*`** (longest match): soundness and completeness. -/
theorem C13_type_names_exact :
    (∀ i n r, typeName i = .ok n r → typeNameOK n = true ∧ i = n ++ r) ∧
    (∀ n r, typeNameOK n = true → (∀ c, r.head? = some c → isAlnum c = false) → typeName (n ++ r) = .ok n r) :=
  ⟨typeName_sound, typeName_complete⟩

/-- **Field and variant names are exactly `[A-Za-z](_?[A-Za-z0-9])*`** (longest match). -/
theorem C13_field_names_exact :
    (∀ i n r, fieldName i = .ok n r → fieldNameOK n = true ∧ i = n ++ r) ∧
    (∀ n r, fieldNameOK n = true → stopsName r = true → fieldName (n ++ r) = .ok n r) :=
  ⟨fieldName_sound, fieldName_complete⟩

/-- **Interface names are exactly `[A-Za-z]([-]*[A-Za-z0-9])*(\.[A-Za-z0-9]([-]*[A-Za-z0-9])*)+`**
    (completeness, longest match): every word of the grammar's regular expression, followed by the end
    of the text or by a byte that cannot continue a name, is accepted with exactly that rest. -/
theorem C13_interface_names_complete (n z : In) (hn : ifaceNameOK n = true) (hz : nameStop z = true) :
    interfaceName (n ++ z) = .ok n z := interfaceName_complete n z hn hz

/-- **Every type expression is read back**, whatever its nesting depth and however many fields or
    variants it has: `varlink_type`, given the fuel the member parsers give it, turns `render t`
    followed by `,` or `)` into exactly `t` and stops there. -/
theorem C13_types_complete (t : Ty) (z : In) (ht : tyOK t = true) (hv : noVC t = true) (hz : stopTy z = true) :
    varlinkType (tyFuel (renderTy t ++ z)) (renderTy t ++ z) = .ok t z := varlinkType_tyFuel t z ht hv hz

/-- **Completeness on the canonical layout** (unbounded): every well-formed description whose inline
    enums carry no variant comments (the parser has no slot for those: `Ty.enum` comments exist only in
    constructor-built trees) is recovered exactly from its reference text — the tree denoted by the text,
    members in source order, nothing dropped, nothing invented. -/
theorem C13_complete (a : Iface) (hok : ifaceOK a = true) (hvc : noVCI a = true) :
    parseInterface (refText a) = .ok a := parseInterface_ref a hok hvc

/-- **Completeness for every layout** (unbounded): `IfaceCoreL a core` is the Varlink grammar as an
    inductive relation between descriptions and texts (`Zlink/Proofs/IdlLayout{Ws,Ty,Member,Iface}.lean`):
    gaps (any string of space, tab, CR, LF) wherever two tokens meet inside parentheses, before and after
    `:` `,` `->`, after the keywords (there non-empty) and between members (non-empty); comment lines
    `#`, any blanks, text, line end, gap in front of the interface, of every member, field, parameter and
    custom-enum variant; members of the three kinds in any interleaving. Every text of the relation,
    with an optional gap before and after it, parses to exactly the description — whatever the names,
    the nesting depth, the numbers of members, fields, variants and comments, and the layout. -/
theorem C13_layout {a : Iface} {core : In} (h : IfaceCoreL a core) (lead trail : In)
    (hl : wsOnly lead = true) (ht : wsOnly trail = true) :
    parseInterface (lead ++ core ++ trail) = .ok a := parseInterface_layout h lead trail hl ht

/-- … and the same for type expressions alone: every layout of a type is read back by `varlink_type`. -/
theorem C13_types_layout {t : Ty} {s : In} (ht : TyL t s) (z : In) (hz : stopTyG z) :
    varlinkType (tyFuel (s ++ z)) (s ++ z) = .ok t z := varlinkType_tyFuelL ht z hz

/-- name of the `Type` variant a primitive type of the model stands for -/
def primVariant : Ty → In
  | .bool => [66, 111, 111, 108] | .int => [73, 110, 116] | .float => [70, 108, 111, 97, 116]
  | .string => [83, 116, 114, 105, 110, 103] | .object => [70, 111, 114, 101, 105, 103, 110, 79, 98, 106, 101, 99, 116]
  | _ => []

/-- **The literals of the current source are the literals of the model** (tables regenerated from
    `idl/parse/mod.rs` and the `Display` impls on every run): every primitive type name the parser
    matches is read by the model as the same `Type` variant; the member keywords and the punctuation
    are exactly the ones the model matches; each `Display` impl writes the keyword the model renders. -/
theorem C13_literals :
    Gen.idlPrimitives.all (fun p => match primitive (p.1 ++ [41]) with
      | .ok t [41] => primVariant t == p.2
      | _ => false) = true ∧
    Gen.idlPrimitives.length = 5 ∧
    Gen.idlKeywords = [[101, 114, 114, 111, 114], [105, 110, 116, 101, 114, 102, 97, 99, 101], [109, 101, 116, 104, 111, 100], [116, 121, 112, 101]] ∧
    Gen.idlPunct = [[35], [40], [41], [44], [45, 62], [58], [63], [91, 93], [91, 115, 116, 114, 105, 110, 103, 93]] ∧
    Gen.idlDisplayKeywords.map (·.2) = [[105, 110, 116, 101, 114, 102, 97, 99, 101, 32], [109, 101, 116, 104, 111, 100, 32],
      [101, 114, 114, 111, 114, 32], [116, 121, 112, 101, 32], [116, 121, 112, 101, 32]] ∧
    -- the model's parsers match exactly these keywords …
    (match errorDef (([101, 114, 114, 111, 114] : In) ++ [32, 69, 40, 41]) with | .ok _ [] => true | _ => false) = true ∧
    (match methodDef (([109, 101, 116, 104, 111, 100] : In) ++ [32, 77, 40, 41, 45, 62, 40, 41]) with | .ok _ [] => true | _ => false) = true ∧
    (match typeDef (([116, 121, 112, 101] : In) ++ [32, 84, 40, 41]) with | .ok _ [] => true | _ => false) = true ∧
    (match interfaceDef (([105, 110, 116, 101, 114, 102, 97, 99, 101] : In) ++ [32, 97, 46, 98]) with | .ok _ [] => true | _ => false) = true ∧
    -- … and the model's renderer writes them
    (([105, 110, 116, 101, 114, 102, 97, 99, 101, 32] : In).isPrefixOf (renderIface ⟨[97, 46, 98], [], [], [], []⟩) &&
     ([109, 101, 116, 104, 111, 100, 32] : In).isPrefixOf (renderMethod ⟨[77], [], [], []⟩) &&
     ([101, 114, 114, 111, 114, 32] : In).isPrefixOf (renderErr ⟨[69], [], []⟩) &&
     ([116, 121, 112, 101, 32] : In).isPrefixOf (renderCT (.obj [84] [] []))) = true := by
  decide +kernel

/-- **Soundness of the interface-name lexer**: whatever it accepts is a word of
    `[A-Za-z]([-]*[A-Za-z0-9])*(\.[A-Za-z0-9]([-]*[A-Za-z0-9])*)+`. With `C13_interface_names_complete`
    the lexer is exact. -/
theorem C13_interface_names_sound (i n r : In) (h : interfaceName i = .ok n r) : ifaceNameOK n = true :=
  interfaceName_sound i n r h

/-- **Soundness at the level of the tree** (every input text, unbounded): whatever `parse_interface`
    accepts, the description it returns consists of grammatical names only (interface, type, method,
    error, field, parameter and variant names each in its regular language), every comment is one line
    without leading blank, `?` is never applied to `?`, and inline enums carry no variant comments.
    (Not covered: that the *text* was grammatical and nothing of it ignored - decided by the oracle
    `nothingIgnored` per explored text; and that an inline enum has at least one variant, which holds
    only for sufficient parser fuel.) -/
theorem C13_sound_tree (s : In) (a : Iface) (h : parseInterface s = .ok a) : ifaceW a = true :=
  parseInterface_sound s a h

/-- **Soundness at the level of the text — nothing is ignored** (every input text, unbounded).
    `IfaceS a core` (`Zlink/Proofs/IdlTextSound{1..4}.lean`) is the grammar as the parser reads it, as an
    inductive relation between descriptions and texts: the tokens of the description in order, layout
    (`GapC`: white space and `#` comments to their line end) between them, white space only where a
    following comment block belongs to the next item, comment lines (`CommentsS`) in front of the
    interface, members, fields, parameters and custom-enum variants, the member list of a `type`
    homogeneous (all typed, or all untyped), members of the three kinds in any order.
    Whatever `parse_interface` accepts is, after `str::trim`, a text of that grammar **denoting exactly
    the returned description**: every byte of the accepted text is a token of the description, part of a
    comment attached to it, or layout — nothing is dropped, nothing invented. (No side condition: that the
    result contains no inline or custom enum without variants is `C13_no_empty_enum`.) -/
theorem C13_sound_text (s : In) (a : Iface) (h : parseInterface s = .ok a) :
    IfaceS a (trim s) := parseInterface_textSound s a h (parseInterface_ne s a h)

/-- **No enum without variants, ever**: `( gap )` in a type position is the empty struct. `struct_type` is tried
    first and accepts it - which needs the two layout skippers of the parser (`ws` between tokens,
    `parse_preceding_comments` in front of a field) to agree on what a comment is (`wsF_pcF`; they did not before
    fix ee9d3d0) - so `enum_type` is never asked; the fuel the member parsers pass (`8·|input| + 64`) is enough at
    every nesting depth (`QN`: induction over the nine mutually recursive type parsers with the invariant
    `8·|input| + c ≤ fuel`); a custom enum gets at least one variant from the member loop of `type_def`. -/
theorem C13_no_empty_enum (s : In) (a : Iface) (h : parseInterface s = .ok a) : ifaceNE a = true :=
  parseInterface_ne s a h

/-- **The two grammars agree on every laid-out text**: a text of the completeness grammar `IfaceCoreL` is
    also a text of the soundness grammar `IfaceS`, for the same description (it parses to it by
    `C13_layout`, hence is accounted for byte by byte by `C13_sound_text`). -/
theorem C13_grammars_consistent {a : Iface} {core : In} (h : IfaceCoreL a core) : IfaceS a core := by
  have hp := C13_layout h [] [] rfl rfl
  have ht : trim core = core := by
    obtain ⟨c, mid, d, e, hc, hd⟩ := h.shape
    have := trim_gaps [] [] c d mid rfl rfl hc hd
    rw [e]; simpa using this
  have := C13_sound_text _ a hp
  simpa [ht] using this

/-- e.g. the member list of a `type` cannot mix variants and typed fields in an accepted text, and no
    member of it is dropped: a `type` member of an accepted text is one of the three homogeneous forms. -/
theorem C13_type_members_homogeneous (i : In) (t : CT) (r : In) (h : typeDef i = .ok t r) :
    ∃ s, i = s ++ r ∧ TypeS t s := typeDef_split i t r h (typeDef_ne i t r h)

/-- The statement without the side condition on inline enums (kept visible): it is *false* for a
    constructor-built inline enum with a commented variant, whose only rendering is the multi-line form
    the parser refuses (known finding of C14). -/
def C13_complete_statement : Prop :=
  ∀ a : Iface, ifaceOK a = true → parseInterface (refText a) = .ok a

/-! ## Non-vacuity / examples (byte lists are the UTF-8 of the quoted texts) -/
namespace Example
/-- accepted, and the reference text of the result is the reference text of `t` -/
def roundTrips (t : Iface) : Bool :=
  match parseInterface (refText t) with
  | .ok a => refText a == refText t
  | .error => false
def rejects (s : In) : Bool := match parseInterface s with | .ok _ => false | .error => true

def tree : Iface :=
  { name := [111, 114, 103, 46, 101, 120, 97, 109, 112, 108, 101, 46, 120], cs := [[100, 111, 99]],
    types := [.obj [84] [([97, 95, 98], .optional (.array .int), [[99]]), ([117], .struct [], [])] [],
              .enm [69] [([111, 110, 101], []), ([116, 119, 111], [])] []],
    methods := [⟨[77], [([120], .map (.custom [84]), [])], [], []⟩],
    errors := [⟨[66, 97, 100], [([119, 104, 121], .enum [([112], []), ([113], [])], [])], []⟩] }
example : ifaceOK tree = true := by decide +kernel
example : noVCI tree = true := by decide +kernel
example : roundTrips tree = true := by decide +kernel
/-- the theorem applied to the example tree (its hypotheses are satisfiable) -/
example : parseInterface (refText tree) = .ok tree := C13_complete tree (by decide +kernel) (by decide +kernel)
-- "interface a.b\nmethod M(a:) -> ()" (used to panic), "interface a.b\nerror Foo" (member used to be
-- dropped), "interface org.example." (used to be accepted)
example : rejects [105, 110, 116, 101, 114, 102, 97, 99, 101, 32, 97, 46, 98, 10, 109, 101, 116, 104, 111, 100, 32, 77, 40, 97, 58, 41, 32, 45, 62, 32, 40, 41] = true := by decide +kernel
example : rejects [105, 110, 116, 101, 114, 102, 97, 99, 101, 32, 97, 46, 98, 10, 101, 114, 114, 111, 114, 32, 70, 111, 111] = true := by decide +kernel
example : rejects [105, 110, 116, 101, 114, 102, 97, 99, 101, 32, 111, 114, 103, 46, 101, 120, 97, 109, 112, 108, 101, 46] = true := by decide +kernel

/-! a laid-out text: `\n# c\ninterface a.b\nmethod M( x : ?[]int ) -> ()` + trailing ` \n` -/
def laidOut : Iface :=
  { name := [97, 46, 98], cs := [[99]], types := [], methods := [⟨[77], [([120], .optional (.array .int), [])], [], []⟩], errors := [] }
def methodText :=
  MethodL.mk (name := [77]) (cs := []) (sc := []) (g1 := [32]) (g2 := []) (g3 := [32]) (g4 := [32]) .nil (by decide) (by decide) (by decide)
    (ParamsL.cons (g0 := [32]) (by decide)
      (FieldL.mk (n := [120]) (cs := []) (g1 := [32]) (g2 := [32]) .nil (by decide) (by decide) (by decide) (TyL.optional rfl (TyL.array TyL.int)))
      (FieldsMoreL.done (g := [32]) (by decide)))
    (by decide) (by decide) (ParamsL.nil (g := []) (by decide))
def coreText :=
  IfaceCoreL.mk (name := [97, 46, 98]) (cs := [[99]]) (g1 := [32])
    (CommentsL.cons (b := [32]) (c := [99]) (e := 13) (post := [10]) (by decide) (by decide) (Or.inr rfl) (by decide) .nil) (by decide) (by decide +kernel)
    (MembersL.cons (g := [10]) (by decide) (by simp) (MemberL.me methodText) .nil)
/-- the layout theorem applied to that text (its hypotheses are satisfiable) … -/
example := C13_layout coreText [10] [32, 10] (by decide) (by decide)
/-- … and the parser model evaluated on the same bytes by the kernel -/
example : (match parseInterface ("\n# c\r\ninterface a.b\nmethod M( x : ?[]int ) -> () \n".toUTF8.toList) with
    | .ok b => refText b == refText laidOut | .error => false) = true := by decide +kernel
end Example
end C13
