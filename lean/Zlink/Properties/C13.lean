import Zlink.Proofs.IdlLex
/-! # C13 — The IDL parser accepts exactly the Varlink grammar and builds the denoted tree

Model: `Zlink/Model/Idl.lean` + `parseInterface` in `Zlink/Model/IdlRender.lean` — a function-by-function port of
`zlink-core/src/idl/parse/mod.rs`. Oracle: `Zlink/Spec/Idl.lean` (the grammar's regular expressions for the
three name classes, tree well-formedness, a tokenizer for "nothing ignored").

Status: the lexical layer is proved exact; totality / absence of panics holds by construction of the
model (every slice and `unwrap` of the source is guarded; the correspondence run checks that the real
parser never panics on ≈ 65 000 legal, mutated, truncated and random texts per run). The syntactic
layer (`parse (render t) = t`) is stated below as `C13_complete_statement` and currently checked by
the correspondence run and the oracle only — see `C13_partial` in DESIGN.md. -/
namespace C13
open Idl SpecIdl

/-- **Never panics, never loops**: parsing is a total function with two outcomes. -/
theorem C13_total (s : In) : parseInterface s = .error ∨ ∃ a, parseInterface s = .ok a := by
  cases h : parseInterface s with
  | error => left; rfl
  | ok a => right; exact ⟨a, rfl⟩

/-- **Type names are exactly `[A-Z][A-Za-z0-9]*`** (longest match): soundness and completeness. -/
theorem C13_type_names_exact :
    (∀ i n r, typeName i = .ok n r → typeNameOK n = true ∧ i = n ++ r) ∧
    (∀ n r, typeNameOK n = true → (∀ c, r.head? = some c → isAlnum c = false) → typeName (n ++ r) = .ok n r) :=
  ⟨typeName_sound, typeName_complete⟩

/-- **Field and variant names are exactly `[A-Za-z](_?[A-Za-z0-9])*`** (longest match). -/
theorem C13_field_names_exact :
    (∀ i n r, fieldName i = .ok n r → fieldNameOK n = true ∧ i = n ++ r) ∧
    (∀ n r, fieldNameOK n = true → stopsName r = true → fieldName (n ++ r) = .ok n r) :=
  ⟨fieldName_sound, fieldName_complete⟩

/-- The full completeness statement (kept visible; proved so far only on examples and checked by the
    correspondence run): every well-formed tree is recovered from its reference text. -/
def C13_complete_statement : Prop :=
  ∀ a : Iface, ifaceOK a = true → parseInterface (refText a) = .ok a

/-! ## Non-vacuity / examples (byte lists are the UTF-8 of the quoted texts) -/
namespace Example
/-- accepted, and the reference text of the result is the reference text of `t` -/
def roundTrips (t : Iface) : Bool :=
  match parseInterface (refText t) with
  | .ok a => refText a == refText t
  | .error => false
def rejects (s : In) : Bool := match parseInterface s with | .ok _ => false | .error => true

def tree : Iface :=
  { name := [111, 114, 103, 46, 101, 120, 97, 109, 112, 108, 101, 46, 120], cs := [[100, 111, 99]],
    types := [.obj [84] [([97, 95, 98], .optional (.array .int), [[99]]), ([117], .struct [], [])] [],
              .enm [69] [([111, 110, 101], []), ([116, 119, 111], [])] []],
    methods := [⟨[77], [([120], .map (.custom [84]), [])], [], []⟩],
    errors := [⟨[66, 97, 100], [([119, 104, 121], .enum [([112], []), ([113], [])], [])], []⟩] }
example : ifaceOK tree = true := by decide +kernel
example : roundTrips tree = true := by decide +kernel
-- "interface a.b\nmethod M(a:) -> ()" (used to panic), "interface a.b\nerror Foo" (member used to be
-- dropped), "interface org.example." (used to be accepted)
example : rejects [105, 110, 116, 101, 114, 102, 97, 99, 101, 32, 97, 46, 98, 10, 109, 101, 116, 104, 111, 100, 32, 77, 40, 97, 58, 41, 32, 45, 62, 32, 40, 41] = true := by decide +kernel
example : rejects [105, 110, 116, 101, 114, 102, 97, 99, 101, 32, 97, 46, 98, 10, 101, 114, 114, 111, 114, 32, 70, 111, 111] = true := by decide +kernel
example : rejects [105, 110, 116, 101, 114, 102, 97, 99, 101, 32, 111, 114, 103, 46, 101, 120, 97, 109, 112, 108, 101, 46] = true := by decide +kernel
end Example
end C13
