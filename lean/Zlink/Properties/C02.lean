import Zlink.Proofs.Tx
import Zlink.Gen.Consts
/-! # C02 — Outbound framing: one JSON document plus one NUL per message, in order

Model: `Zlink/Model/Tx.lean` (`write_connection.rs`). Spec: `Zlink/Spec/Tx.lean`, an abstract queue of
accepted bytes. The serializer's result for a message is a parameter (`SerOutcome`); that the bytes are
serde_json's compact encoding and contain no NUL is C03. -/
namespace C02
open Tx

/-- **C02 (refinement, full statement).** For every history of enqueue / send / flush operations,
    every message size and every (successful or failing) serialisation outcome, the per-operation
    results and the sequence of transport writes of the buffer-level send path equal those of the
    abstract queue: a flush with a non-empty queue is exactly one write holding, in order, `bytes ++
    [0]` of every message accepted since the previous flush; an empty flush writes nothing; a refused
    message contributes nothing. Holds for every growth step and every limit that is a multiple of it. -/
theorem C02_history (C : Consts) (M : Nat) (hs : 0 < C.step) (hm : C.max = M * C.step) (hM : 1 ≤ M)
    (ops : List Op) :
    run C ops (init C) = SpecTx.run C ops [] :=
  run_refines C M ops (init C) (inv_init C M hs hm hM)

/-- The bytes written do not depend on the buffer's capacity or on where a message starts relative
    to the growth step: any two buffer states holding the same queued bytes behave identically. -/
theorem C02_free_space_irrelevant (C : Consts) (M : Nat) (s₁ s₂ : St) (h₁ : Inv C M s₁) (h₂ : Inv C M s₂)
    (hq : s₁.queued = s₂.queued) (ops : List Op) :
    run C ops s₁ = run C ops s₂ := by
  rw [run_refines C M ops s₁ h₁, run_refines C M ops s₂ h₂, hq]

/-- A refused message leaves what is queued untouched. -/
theorem C02_refused_no_effect (C : Consts) (q : SpecTx.Q) (o : SerOutcome)
    (h : (SpecTx.enqueue C q o).1 ≠ .ok) : (SpecTx.enqueue C q o).2 = q := by
  cases o with
  | ok b =>
    simp only [SpecTx.enqueue] at *
    by_cases hc : q.length + b.length + 1 ≤ C.max
    · simp [hc] at h
    · simp [hc]
  | keyErr b =>
    simp only [SpecTx.enqueue]
    by_cases hc : q.length + b.length ≤ C.max <;> simp [hc]

/-- A flush with nothing enqueued writes nothing. -/
theorem C02_empty_flush (w : Bool) : SpecTx.flush [] w = (.ok, none, []) := by
  simp [SpecTx.flush]

/-- Framing: every message followed by one NUL. -/
def enc (fs : List (List Byte)) : List Byte := fs.flatMap (· ++ [0])

/-- The messages a history gets accepted, in submission order. -/
def accepted (C : Consts) : List Op → SpecTx.Q → List (List Byte)
  | [], _ => []
  | op :: ops, q =>
    let o? : Option SerOutcome := match op with | .enqueue o => some o | .send o _ => some o | .flush _ => none
    let here : List (List Byte) := match o? with
      | some (.ok b) => if (SpecTx.enqueue C q (.ok b)).1 = .ok then [b] else []
      | _ => []
    here ++ accepted C ops (SpecTx.step C q op).2.2

def finalQ (C : Consts) : List Op → SpecTx.Q → SpecTx.Q
  | [], q => q
  | op :: ops, q => finalQ C ops (SpecTx.step C q op).2.2

def AllWritesOk : List Op → Prop
  | [] => True
  | .enqueue _ :: t => AllWritesOk t
  | .send _ w :: t => w = true ∧ AllWritesOk t
  | .flush w :: t => w = true ∧ AllWritesOk t

theorem stream_eq (C : Consts) : ∀ (ops : List Op) (q : SpecTx.Q), AllWritesOk ops →
    (SpecTx.run C ops q).2.flatten ++ finalQ C ops q = q ++ enc (accepted C ops q) := by
  intro ops
  induction ops with
  | nil => intro q _; simp [SpecTx.run, finalQ, accepted, enc]
  | cons op ops ih =>
    intro q hw
    cases op with
    | enqueue o =>
      have hw' : AllWritesOk ops := hw
      cases o with
      | keyErr b =>
        have hq : (SpecTx.step C q (.enqueue (.keyErr b))).2.2 = q := by
          simp only [SpecTx.step, SpecTx.enqueue]
          by_cases hc : q.length + b.length ≤ C.max <;> simp [hc]
        have hr : (SpecTx.step C q (.enqueue (.keyErr b))).2.1 = none := by simp [SpecTx.step]
        simp only [SpecTx.run, finalQ, accepted, hq, hr, List.nil_append]
        exact ih q hw'
      | ok b =>
        by_cases hc : q.length + b.length + 1 ≤ C.max
        · have hq : (SpecTx.step C q (.enqueue (.ok b))).2.2 = q ++ b ++ [0] := by
            simp [SpecTx.step, SpecTx.enqueue, hc]
          have hr : (SpecTx.step C q (.enqueue (.ok b))).2.1 = none := by simp [SpecTx.step]
          have ha : (SpecTx.enqueue C q (.ok b)).1 = .ok := by simp [SpecTx.enqueue, hc]
          simp only [SpecTx.run, finalQ, accepted, hq, hr, ha, if_true]
          rw [ih _ hw']; simp [enc]
        · have hq : (SpecTx.step C q (.enqueue (.ok b))).2.2 = q := by
            simp [SpecTx.step, SpecTx.enqueue, hc]
          have hr : (SpecTx.step C q (.enqueue (.ok b))).2.1 = none := by simp [SpecTx.step]
          have ha : (SpecTx.enqueue C q (.ok b)).1 ≠ .ok := by simp [SpecTx.enqueue, hc]
          simp only [SpecTx.run, finalQ, accepted, hq, hr, ha, if_false, List.nil_append]
          exact ih q hw'
    | flush w =>
      obtain ⟨hw1, hw2⟩ := hw
      subst hw1
      by_cases hq0 : q = []
      · have hq : SpecTx.step C q (.flush true) = (.ok, none, q) := by simp [SpecTx.step, SpecTx.flush, hq0]
        simp only [SpecTx.run, finalQ, accepted, hq, List.nil_append]
        exact ih q hw2
      · have hq : SpecTx.step C q (.flush true) = (.ok, some q, []) := by simp [SpecTx.step, SpecTx.flush, hq0]
        simp only [SpecTx.run, finalQ, accepted, hq, List.nil_append, List.flatten_cons]
        rw [List.append_assoc, ih [] hw2]; simp
    | send o w =>
      obtain ⟨hw1, hw2⟩ := hw
      subst hw1
      cases o with
      | keyErr b =>
        have hq : SpecTx.step C q (.send (.keyErr b) true) = ((SpecTx.enqueue C q (.keyErr b)).1, none, q) := by
          simp only [SpecTx.step, SpecTx.enqueue]
          by_cases hc : q.length + b.length ≤ C.max <;> simp [hc]
        simp only [SpecTx.run, finalQ, accepted, hq, List.nil_append]
        exact ih q hw2
      | ok b =>
        by_cases hc : q.length + b.length + 1 ≤ C.max
        · have hq : SpecTx.step C q (.send (.ok b) true) = (.ok, some (q ++ b ++ [0]), []) := by
            simp [SpecTx.step, SpecTx.enqueue, SpecTx.flush, hc]
          have ha : (SpecTx.enqueue C q (.ok b)).1 = .ok := by simp [SpecTx.enqueue, hc]
          simp only [SpecTx.run, finalQ, accepted, hq, ha, if_true, List.flatten_cons]
          rw [List.append_assoc, ih [] hw2]; simp [enc]
        · have hq : SpecTx.step C q (.send (.ok b) true) = (.overflow, none, q) := by
            simp [SpecTx.step, SpecTx.enqueue, hc]
          have ha : (SpecTx.enqueue C q (.ok b)).1 ≠ .ok := by simp [SpecTx.enqueue, hc]
          simp only [SpecTx.run, finalQ, accepted, hq, ha, if_false, List.nil_append]
          exact ih q hw2

/-- **One document plus one NUL per accepted message, in submission order, nothing else.** With a
    transport that accepts the writes, the concatenation of everything written, followed by what is
    still queued, is exactly the framing `enc` of the accepted messages (each `bytes ++ [0]`). -/
theorem C02_stream (C : Consts) (M : Nat) (hs : 0 < C.step) (hm : C.max = M * C.step) (hM : 1 ≤ M)
    (ops : List Op) (hw : AllWritesOk ops) :
    (run C ops (init C)).2.flatten ++ finalQ C ops [] = enc (accepted C ops []) := by
  rw [C02_history C M hs hm hM ops]
  simpa using stream_eq C ops [] hw

/-- The extracted constants of the current source satisfy the hypotheses (production and hook limit). -/
theorem consts_ok :
    (0 < Gen.bufferSize) ∧ (∃ M, 1 ≤ M ∧ Gen.maxBufferSizeProd = M * Gen.bufferSize) ∧
    (∃ M, 1 ≤ M ∧ Gen.maxBufferSizeHook = M * Gen.bufferSize) := by
  refine ⟨by decide, ⟨Gen.maxBufferSizeProd / Gen.bufferSize, by decide, by decide⟩,
    ⟨Gen.maxBufferSizeHook / Gen.bufferSize, by decide, by decide⟩⟩

/-- The executable oracle evaluated on implementation observations is met by the model. -/
theorem C02_oracle (C : Consts) (M : Nat) (hs : 0 < C.step) (hm : C.max = M * C.step) (hM : 1 ≤ M)
    (ops : List Op) : SpecTx.holds C ops (run C ops (init C)) = true := by
  rw [C02_history C M hs hm hM ops]; simp [SpecTx.holds]

/-! ## Non-vacuity -/
namespace Example
def C : Consts := { step := 4, max := 12 }
def ops : List Op := [.enqueue (.ok [1, 2, 3]), .enqueue (.keyErr [9]), .enqueue (.ok [4, 5, 6, 7]),
  .flush true, .flush true, .send (.ok [8]) true, .send (.ok [1,2,3,4,5,6,7,8,9,10,11,12]) true]
example : run C ops (init C) =
    ([.ok, .json, .ok, .ok, .ok, .ok, .overflow], [[1, 2, 3, 0, 4, 5, 6, 7, 0], [8, 0]]) := by decide
example : AllWritesOk ops := by simp [ops, AllWritesOk]
end Example
end C02
