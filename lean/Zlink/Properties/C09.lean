import Zlink.Proofs.Server
import Zlink.Properties.C08
/-! # C09 — A faulty client ends only its own connection; the server and others carry on

Same model as C08. A connection is *well-behaved* (`good`) when its peer sends whole frames, closes
only after having sent everything, and its transport accepts writes. **Nothing at all is assumed about
the other connections**: garbage bytes, truncated frames, EOF mid-burst, read errors (a `close` event at
any point), write failures at any write, arbitrary initial state. -/
namespace C09
open Rx Srv

/-- Events that concern only misbehaving connections are never constrained: whatever arrives on them,
    whenever they are closed, the hypotheses of the refinement theorem stay satisfied. -/
theorem C09_faults_unconstrained (C : Consts) (s : S) (i : Nat) (b : List Byte)
    (hbad : ∀ c ∈ s.all, c.id = i → c.good = false) :
    EvOK C s (.arrive i b) ∧ EvOK C s (.close i) := by
  constructor
  · intro c hc hid hg; rw [hbad c hc hid] at hg; cases hg
  · intro c hc hid hg; rw [hbad c hc hid] at hg; cases hg

/-- A misbehaving connection may be handed to the listener in any state. -/
theorem C09_bad_connect_unconstrained (C : Consts) (s : S) (c : Conn) (hbad : c.good = false) :
    EvOK C s (.connect c) := by
  intro hg; rw [hbad] at hg; cases hg

/-- **C09 (non-interference).** For every event sequence in which the well-behaved connections
    behave — and the others do anything whatsoever — every well-behaved connection has been served
    exactly the sequential reference for the calls consumed so far: its replies are a function of its
    own calls alone, so they are what it would have received had the faulty connections never existed.
    (One iteration of the server loop touches the polled connection and the winner only:
    `Srv.iter_inv`.) -/
theorem C09_noninterference (C : Consts) (hstep : 0 < C.step) (sizes : Nat → Nat)
    (evs : List Srv.Ev) (hev : Srv.EvsOK C sizes evs init) :
    ∀ c ∈ (runEvs C sizes evs init).conns ++ (runEvs C sizes evs init).listenQ ++ (runEvs C sizes evs init).dead,
      c.good = true → c.out = expectedOut (c.descs.take c.k) := by
  intro c hc hg
  exact ((C08.C08_refinement C hstep sizes evs hev).1 c hc hg).2.2

/-- **C09 in the property's own words.** Take ANY two runs - say one with faulty clients around and one without, with
    any interleaving, fragmentation and faults whatsoever on the other connections - that both end with an idle server.
    A well-behaved client that sent the same calls in both (all bytes arrived) and whose reply streams were allowed to hand
    over the same number of results has been sent **exactly the same replies** in both: what it receives is a function of
    its own calls alone (`C08_model_satisfies_oracle`), "exactly the replies it would have received had the faulty
    connection never existed". -/
theorem C09_same_replies_whoever_else_is_there (C : Consts) (hstep : 0 < C.step) (sizes₁ sizes₂ : Nat → Nat)
    (evs₁ evs₂ : List Srv.Ev)
    (hev₁ : Srv.EvsOK C sizes₁ evs₁ init) (hacct₁ : Srv.EvsAcct evs₁) (hidle₁ : iter C sizes₁ (runEvs C sizes₁ evs₁ init) = none)
    (hev₂ : Srv.EvsOK C sizes₂ evs₂ init) (hacct₂ : Srv.EvsAcct evs₂) (hidle₂ : iter C sizes₂ (runEvs C sizes₂ evs₂ init) = none)
    (c₁ c₂ : Conn) (h₁ : c₁ ∈ (runEvs C sizes₁ evs₁ init).conns) (h₂ : c₂ ∈ (runEvs C sizes₂ evs₂ init).conns)
    (g₁ : c₁.good = true) (g₂ : c₂.good = true) (f₁ : c₁.fut = []) (f₂ : c₂.fut = [])
    (hd : c₁.descs = c₂.descs) (hg : c₁.granted = c₂.granted) : c₁.out = c₂.out := by
  rw [(C08.C08_model_satisfies_oracle C hstep sizes₁ evs₁ hev₁ hacct₁ hidle₁).1 c₁ h₁ g₁ f₁,
      (C08.C08_model_satisfies_oracle C hstep sizes₂ evs₂ hev₂ hacct₂ hidle₂).1 c₂ h₂ g₂ f₂, hd, hg]

/-- A failed write to a client drops that connection only; in particular it can only happen to a
    connection whose transport fails (never to a well-behaved one). -/
theorem C09_write_failure_local (c : Conn) (toks : List Tok) (h : c.wfail = none) :
    writeTo c toks = some { c with out := c.out ++ toks, nwrites := c.nwrites + 1 } :=
  writeTo_nofail c toks h

/-- The server loop itself has no failure exit in these events: a poll of the server future always
    yields a state again (the only `?` that leaves `run` is a failing `listener.accept()`, which is
    not among the property's faults; the correspondence run checks that the real future stays pending). -/
theorem C09_server_alive (C : Consts) (hstep : 0 < C.step) (sizes : Nat → Nat) (fuel : Nat) (s : S)
    (g : GInv C s) : GInv C (pollServer C sizes fuel s) :=
  pollServer_inv C hstep sizes fuel s g

/-! ## Non-vacuity: a healthy connection next to one that sends a truncated frame and dies -/
namespace Example
def C : Consts := C08.Example.C
def good : Conn := C08.Example.conn 0 [[1, 2], [3]] [.echo 7 false, .fail false]
def bad : Conn := { C08.Example.conn 1 [] [.echo 1 false, .echo 2 false] with good := false, wfail := some 1 }
def evs : List Srv.Ev := [.connect bad, .connect good, .arrive 1 [5, 0, 6, 0, 7], .arrive 0 [1, 2, 0], .run 50,
  .close 1, .arrive 0 [3, 0], .run 50]
example : (runEvs C (fun _ => 100) evs init).all.map (fun c => (c.id, c.out)) = [(0, [.R 7, .E]), (1, [])] := by decide
/-- the same healthy client alone: both runs end idle, the hypotheses of `C09_same_replies_whoever_else_is_there` are
    met, and the client was sent the same replies -/
def evsAlone : List Srv.Ev := [.connect good, .arrive 0 [1, 2, 0], .run 50, .arrive 0 [3, 0], .run 50]
example : iter C (fun _ => 100) (runEvs C (fun _ => 100) evs init) = none
    ∧ iter C (fun _ => 100) (runEvs C (fun _ => 100) evsAlone init) = none
    ∧ (runEvs C (fun _ => 100) evs init).conns.map (fun c => (c.id, c.out)) = [(0, [.R 7, .E])]
    ∧ (runEvs C (fun _ => 100) evsAlone init).conns.map (fun c => (c.id, c.out)) = [(0, [.R 7, .E])] := by decide
example : Srv.EvsAcct evs ∧ Srv.EvsAcct evsAlone := by
  simp [Srv.EvsAcct, Srv.EvAcct, evs, evsAlone, good, bad, C08.Example.conn]
end Example
end C09
