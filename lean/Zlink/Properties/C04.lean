import Zlink.Proofs.Envelope
/-! # C04 — A reply carrying an error is never reported to the caller as success

Model: `Zlink/Model/Envelope.lean` — the three-way untagged `ReplyMsg` of `receive_reply`
(`read_connection.rs`): standard service error, then the caller's error type, then the success arm
`Success<P>`, which refuses any `error` member. Quantified over **every** parameter shape `P`, every
set of error variants `E`, every set of standard errors and every reply object (member order,
duplicates, unknown members included). -/
namespace C04
open Env

/-- **A reply object that carries an `error` member is never a success**, whatever the parameter and
    error types are. -/
theorem C04_error_never_success (svc : List Variant) (P : PShape) (E : List Variant) (ms : Members)
    (h : hasKey "error" ms = true) : classify svc P E (.obj ms) ≠ .success := by
  unfold classify
  split
  · intro h'; cases h'
  · split
    · intro h'; cases h'
    · have : decodeSuccess P (.obj ms) = false := by simp [decodeSuccess, h]
      rw [this]; intro h'; cases h'

/-- success ⇔ neither decoder recognises an error and the success arm accepts the frame -/
theorem C04_success_iff (svc : List Variant) (P : PShape) (E : List Variant) (j : J) :
    classify svc P E j = .success ↔
      decodeAdj "error" "parameters" svc j = none ∧ decodeAdj "error" "parameters" E j = none ∧
      decodeSuccess P j = true := by
  unfold classify
  cases h1 : decodeAdj "error" "parameters" svc j with
  | some p => obtain ⟨i, xs⟩ := p; simp
  | none =>
    cases h2 : decodeAdj "error" "parameters" E j with
    | some p => obtain ⟨i, xs⟩ := p; simp
    | none => by_cases h3 : decodeSuccess P j = true <;> simp [h3]

/-- reported as connection-level service error `i` ⇔ the standard-error decoder recognises variant `i` -/
theorem C04_service_error_iff (svc : List Variant) (P : PShape) (E : List Variant) (j : J) (i : Nat) :
    classify svc P E j = .serviceError i ↔ ∃ xs, decodeAdj "error" "parameters" svc j = some (i, xs) := by
  unfold classify
  cases h1 : decodeAdj "error" "parameters" svc j with
  | some p => obtain ⟨i', xs⟩ := p; simp
  | none =>
    cases h2 : decodeAdj "error" "parameters" E j with
    | some p => obtain ⟨i', xs⟩ := p; simp
    | none => by_cases h3 : decodeSuccess P j = true <;> simp [h3]

/-- reported as the method's error `i` ⇔ no standard error matches and the caller's type recognises `i` -/
theorem C04_method_error_iff (svc : List Variant) (P : PShape) (E : List Variant) (j : J) (i : Nat) :
    classify svc P E j = .methodError i ↔
      decodeAdj "error" "parameters" svc j = none ∧ ∃ xs, decodeAdj "error" "parameters" E j = some (i, xs) := by
  unfold classify
  cases h1 : decodeAdj "error" "parameters" svc j with
  | some p => obtain ⟨i', xs⟩ := p; simp
  | none =>
    cases h2 : decodeAdj "error" "parameters" E j with
    | some p => obtain ⟨i', xs⟩ := p; simp
    | none => by_cases h3 : decodeSuccess P j = true <;> simp [h3]

/-- a reported error is always the one the `error` member names (nothing is mis-attributed) -/
theorem C04_reported_error_is_named (svc : List Variant) (P : PShape) (E : List Variant) (ms : Members) (i : Nat) :
    (classify svc P E (.obj ms) = .serviceError i →
        ∃ n esc v, lookup "error" ms = some (.str n esc) ∧ svc[i]? = some v ∧ v.name = n) ∧
    (classify svc P E (.obj ms) = .methodError i →
        ∃ n esc v, lookup "error" ms = some (.str n esc) ∧ E[i]? = some v ∧ v.name = n) := by
  constructor
  · intro h
    obtain ⟨xs, hx⟩ := (C04_service_error_iff svc P E (.obj ms) i).mp h
    exact decodeAdjM_named hx
  · intro h
    obtain ⟨_, xs, hx⟩ := (C04_method_error_iff svc P E (.obj ms) i).mp h
    exact decodeAdjM_named hx

/-- and therefore: a frame without an `error` member is never reported as an error -/
theorem C04_no_error_member_no_error (svc : List Variant) (P : PShape) (E : List Variant) (ms : Members)
    (h : hasKey "error" ms = false) (i : Nat) :
    classify svc P E (.obj ms) ≠ .serviceError i ∧ classify svc P E (.obj ms) ≠ .methodError i := by
  constructor
  · intro hc
    obtain ⟨n, esc, v, hl, _, _⟩ := (C04_reported_error_is_named svc P E ms i).1 hc
    rw [hasKey_of_lookup hl] at h; cases h
  · intro hc
    obtain ⟨n, esc, v, hl, _, _⟩ := (C04_reported_error_is_named svc P E ms i).2 hc
    rw [hasKey_of_lookup hl] at h; cases h

/-! ## Non-vacuity -/
namespace Example
def E : List Variant := [{ name := "x.Y", fields := none, lenient := true },
  { name := "x.Z", fields := some [{ name := "code", ty := .int (-10) 10 }] }]
def svc : List Variant := [{ name := "org.varlink.service.PermissionDenied", fields := none, lenient := true }]
example : classify svc .unit E (.obj [("error", .str "io.systemd.System" false)]) = .decodeError := by decide
example : classify svc .unit E (.obj [("parameters", .obj [("code", .int 5)]), ("error", .str "x.Z" false)]) = .methodError 1 := by decide
example : classify svc .unit E (.obj [("error", .str "org.varlink.service.PermissionDenied" false), ("parameters", .obj [])]) = .serviceError 0 := by decide
example : classify svc .value E (.obj [("parameters", .int 1)]) = .success := by decide
end Example
end C04
