import Zlink.Model.IdlRender
/-! Executable oracle for C13 / C14, independent of the parser port: a tokenizer and well-formedness
    predicates over trees. -/
namespace SpecIdl
open Idl

/-! ### the three lexical classes, as the grammar's regular expressions -/

/-- `[A-Za-z](_?[A-Za-z0-9])*` -/
def tailOK : In → Bool
  | [] => true
  | c :: t => if isAlnum c then tailOK t
    else if c == 95 then (match t with | d :: t' => isAlnum d && tailOK t' | [] => false) else false
def fieldNameOK : In → Bool
  | c :: t => isAlpha c && tailOK t
  | [] => false

/-- `[A-Z][A-Za-z0-9]*` -/
def typeNameOK : In → Bool
  | c :: t => isUpper c && t.all isAlnum
  | [] => false

/-- one segment: first character given by `first`, then `([-]*[A-Za-z0-9])*` -/
def segOK (first : UInt8 → Bool) : In → Bool
  | c :: t => first c && t.all (fun x => isAlnum x || x == 45) && (c :: t).getLast? != some 45
  | [] => false

def splitOn (sep : UInt8) : In → List In
  | [] => [[]]
  | c :: t => if c == sep then [] :: splitOn sep t else
    match splitOn sep t with
    | h :: r => (c :: h) :: r
    | [] => [[c]]

/-- `[A-Za-z]([-]*[A-Za-z0-9])*(\.[A-Za-z0-9]([-]*[A-Za-z0-9])*)+` -/
def ifaceNameOK (n : In) : Bool :=
  match splitOn 46 n with
  | s0 :: s1 :: rest => segOK isAlpha s0 && (s1 :: rest).all (segOK isAlnum)
  | _ => false

/-- comment text the parser can produce: no line break, no leading blank -/
def commentOK (c : In) : Bool := !c.contains 10 && !c.contains 13 && (match c with | 32 :: _ => false | 9 :: _ => false | _ => true)

mutual
def tyOK : Ty → Bool
  | .optional (.optional _) => false
  | .optional t => tyOK t
  | .array t => tyOK t
  | .map t => tyOK t
  | .custom n => typeNameOK n
  | .enum vs => !vs.isEmpty && vs.all (fun v => fieldNameOK v.1 && v.2.all commentOK)
  | .struct fs => fieldsTyOK fs
  | _ => true
def fieldsTyOK : List (In × Ty × List In) → Bool
  | [] => true
  | (n, t, cs) :: r => fieldNameOK n && tyOK t && cs.all commentOK && fieldsTyOK r
end

def fieldsOK (fs : List Field) : Bool := fieldsTyOK fs

def ifaceOK (a : Iface) : Bool :=
  ifaceNameOK a.name && a.cs.all commentOK &&
  a.types.all (fun t => match t with
    | .obj n fs cs => typeNameOK n && fieldsOK fs && cs.all commentOK
    | .enm n vs cs => typeNameOK n && !vs.isEmpty && vs.all (fun v => fieldNameOK v.1 && v.2.all commentOK) && cs.all commentOK) &&
  a.methods.all (fun m => typeNameOK m.name && fieldsOK m.ins && fieldsOK m.outs && m.cs.all commentOK) &&
  a.errors.all (fun e => typeNameOK e.name && fieldsOK e.fs && e.cs.all commentOK)

/-! ### tokens: the non-layout content of a text -/

def isIdent (c : UInt8) : Bool := isAlnum c || c == 95 || c == 45 || c == 46

/-- Splits a text into tokens: identifier-like runs, single punctuation bytes, and comment texts
    (`#` up to the end of the line, leading blanks stripped); whitespace separates and is dropped. -/
def tokens : Nat → In → In → List In → List In
  | 0, _, cur, acc => (if cur.isEmpty then acc else cur.reverse :: acc).reverse
  | _, [], cur, acc => (if cur.isEmpty then acc else cur.reverse :: acc).reverse
  | n+1, c :: t, cur, acc =>
    let flush := if cur.isEmpty then acc else cur.reverse :: acc
    if c == 35 then
      let body := (t.takeWhile (fun x => x != 10 && x != 13))
      let body' := body.dropWhile (fun x => x == 32 || x == 9)
      tokens n (t.drop body.length) [] ((35 :: body') :: flush)
    else if isIdent c then tokens n t (c :: cur) acc
    else if c == 32 || c == 9 || c == 10 || c == 13 then tokens n t [] flush
    else tokens n t [] ([c] :: flush)

def tokenize (s : In) : List In := tokens (s.length + 1) s [] []

/-- **Nothing ignored**: an accepted text has exactly the tokens (and comments, in order) of the
    canonical rendering of the tree it was parsed to, and that tree is well-formed. Members of one
    kind keep their source order; the canonical rendering lists types, then methods, then errors, so
    token *multisets per member* are compared by sorting the member blocks: here we compare the sorted
    token lists, plus exact order within the interface header. -/
def insertSorted (x : In) : List In → List In
  | [] => [x]
  | h :: t => if x ≤ h then x :: h :: t else h :: insertSorted x t
def sortToks (l : List In) : List In := l.foldr insertSorted []

/-- reference text of a tree: as `renderIface`, except that a custom enum is always written with
    commas, each variant preceded by its comments (the form the grammar accepts) -/
def refCT : CT → In
  | .enm n vs cs =>
    renderComments cs ++ ([116, 121, 112, 101, 32] : In) ++ n ++ ([32, 40] : In) ++
      joinWith (([44, 32] : In)) (vs.map fun v => renderComments v.2 ++ v.1) ++ [41]
  | t => renderCT t

def refText (a : Iface) : In :=
  renderComments a.cs ++ ([105, 110, 116, 101, 114, 102, 97, 99, 101, 32] : In) ++ a.name ++
    (a.types.flatMap fun t => ([10, 10] : In) ++ refCT t) ++
    (a.methods.flatMap fun m => ([10, 10] : In) ++ renderMethod m) ++
    (a.errors.flatMap fun e => ([10, 10] : In) ++ renderErr e)

def isComment (t : In) : Bool := t.head? == some 35

/-- multiset inclusion of sorted lists -/
def subMultiset : List In → List In → Bool
  | [], _ => true
  | _ :: _, [] => false
  | x :: xs, y :: ys => if x == y then subMultiset xs ys else if y < x then subMultiset (x :: xs) ys else false

/-- **Nothing ignored**: an accepted text has exactly the non-comment tokens of the reference text of
    the tree it was parsed to, that tree is well-formed, and every comment of the tree occurs in the
    text. (A comment at a place where the description has no slot for it — e.g. between a type name and
    its parenthesis — is layout, as in the Varlink grammar's `_` production; comments in the designated
    places are checked exactly by the expected-tree comparison of the generated legal texts.) -/
def nothingIgnored (text : In) (a : Iface) : Bool :=
  let tt := tokenize text
  let rt := tokenize (refText a)
  ifaceOK a &&
    sortToks (tt.filter (!isComment ·)) == sortToks (rt.filter (!isComment ·)) &&
    subMultiset (sortToks (rt.filter isComment)) (sortToks (tt.filter isComment))
end SpecIdl
