import Zlink.Model.Rx
/-! Executable oracle for the receive path (C01, C07): what a sequence of poll outcomes must look
    like given the frames the peer sends and the event list. Used in the theorems (on the model's
    run) and by the driver (on the implementation's observation). -/
namespace SpecRx
open Rx

/-- Ghost state of the oracle: bytes of the peer's stream that have not arrived yet (count),
    frames still owed, whether the peer has closed. -/
structure G where
  notArrived : Nat
  owed : List (List Byte)
  closed : Bool

/-- One poll outcome is acceptable in ghost state `g`. -/
def okOut (g : G) : Out → Bool
  | .pending => !(g.notArrived == 0 && (!g.owed.isEmpty || g.closed))
  | .frame f => match g.owed with
    | [] => false
    | h :: _ => f == h
  | .err .eof => g.owed.isEmpty && g.closed
  | .err .overflow => false

def advance (g : G) : Out → G
  | .frame _ => { g with owed := g.owed.drop 1 }
  | _ => g

/-- `conforms evs outs g`: the outcomes `outs` of the polls in `evs` conform to the frames owed. -/
def conforms : List Ev → List Out → G → Bool
  | [], outs, _ => outs.isEmpty
  | .arrive b :: t, outs, g => conforms t outs { g with notArrived := g.notArrived - b.length }
  | .close :: t, outs, g => conforms t outs { g with closed := true }
  | .poll :: t, o :: outs, g => okOut g o && conforms t outs (advance g o)
  | .poll :: _, [], _ => false

def g0 (frames : List (List Byte)) : G :=
  { notArrived := (enc frames).length, owed := frames, closed := false }

/-- The oracle: nothing fabricated, dropped, duplicated or reordered; end-of-stream only after the
    close and once nothing is owed; no poll stays pending when a whole owed frame has arrived and
    nothing else is in flight. -/
def holds (frames : List (List Byte)) (evs : List Ev) (outs : List Out) : Bool :=
  conforms evs outs (g0 frames)
end SpecRx

namespace SpecRx
open Rx
/-- Oracle for C17 (inbound): a lone frame `f` whose wire size reaches the limit, or unterminated
    input of at least `max` bytes: every poll is pending until `max` bytes have arrived; the first
    poll after that reports `overflow` (later polls are unconstrained). Below the limit: `holds`. -/
def boundsConforms (max : Nat) : List Ev → List Out → (arrived : Nat) → Bool
  | [], outs, _ => outs.isEmpty
  | .arrive b :: t, outs, a => boundsConforms max t outs (a + b.length)
  | .close :: t, outs, a => boundsConforms max t outs a
  | .poll :: t, o :: outs, a =>
    if a ≥ max then o == .err .overflow    -- and nothing is demanded afterwards
    else o == .pending && boundsConforms max t outs a
  | .poll :: _, [], _ => false

/-- A history: earlier frames, each arriving whole in one piece and handed out by the next poll, then a last
    frame whose wire size reaches the limit: what the connection carried before changes nothing for it. -/
def histConforms (max : Nat) : List (List Byte) → List Ev → List Out → Bool
  | [_], evs, outs => boundsConforms max evs outs 0
  | f :: rest, .arrive b :: .poll :: evs, o :: outs => b == f ++ [0] && o == .frame f && histConforms max rest evs outs
  | f :: rest, .poll :: evs, o :: outs => o == .pending && histConforms max (f :: rest) evs outs   -- nothing has arrived yet
  | _, _, _ => false

def holdsBounds (max : Nat) (frames : List (List Byte)) (evs : List Ev) (outs : List Out) : Bool :=
  if (enc frames).length < max then holds frames evs outs
  else match frames with
    | [] | [_] => boundsConforms max evs outs 0
    | _ =>
      -- several frames, consumed one by one: every frame below the limit is accepted whatever came before it;
      -- a last frame that reaches the limit is refused as a lone one would be
      if frames.all (fun f => f.length + 1 < max) then holds frames evs outs
      else histConforms max frames evs outs
end SpecRx
