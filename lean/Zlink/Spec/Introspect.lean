import Zlink.Model.Introspect
import Zlink.Util.Bytes
/-! What C16 demands of a derived description, written from the property's sentence: integers to int,
    floats to float, strings and chars to string, Option to ?, sequences and sets to [], string-keyed
    maps to [string], unit to the empty object, wrappers transparent, custom types by name - plus the
    std "special" types as the crate documents them (time to float, paths / OS strings / network
    addresses to string, `serde_json::Value` to the foreign object). -/
namespace SpecIntro
open Idl Introspect

/-- std types without parameters -/
def atomTable : List (In × Prim) :=
  [ (b!"bool", .bool),
    -- integers to int
    (b!"i8", .int), (b!"i16", .int), (b!"i32", .int), (b!"i64", .int), (b!"u8", .int), (b!"u16", .int), (b!"u32", .int),
    (b!"u64", .int), (b!"isize", .int), (b!"usize", .int),
    -- floats to float (and the time types, as seconds)
    (b!"f32", .float), (b!"f64", .float), (b!"core::time::Duration", .float), (b!"std::time::Instant", .float),
    (b!"std::time::SystemTime", .float),
    -- strings and chars to string (and paths, OS strings, network addresses)
    (b!"&str", .string), (b!"str", .string), (b!"char", .string), (b!"String", .string), (b!"std::path::PathBuf", .string),
    (b!"std::path::Path", .string), (b!"std::ffi::OsString", .string), (b!"std::ffi::OsStr", .string),
    (b!"core::net::IpAddr", .string), (b!"core::net::Ipv4Addr", .string), (b!"core::net::Ipv6Addr", .string),
    (b!"core::net::SocketAddr", .string), (b!"core::net::SocketAddrV4", .string), (b!"core::net::SocketAddrV6", .string),
    -- unit to the empty object; any JSON value to the foreign object
    (b!"unit", .unit), (b!"serde_json::Value", .object) ]

/-- one-parameter constructors -/
def ctorTable : List (In × Kind) :=
  [ -- Option to ?
    (b!"Option", .optional),
    -- sequences and sets to []
    (b!"Vec", .array), (b!"&[]", .array), (b!"HashSet", .array), (b!"BTreeSet", .array),
    -- string-keyed maps to [string]
    (b!"HashMap<String>", .map), (b!"HashMap<&str>", .map), (b!"BTreeMap<String>", .map), (b!"BTreeMap<&str>", .map),
    -- wrappers are transparent
    (b!"Box", .transparent), (b!"std::rc::Rc", .transparent), (b!"std::sync::Arc", .transparent),
    (b!"std::cell::Cell", .transparent), (b!"std::cell::RefCell", .transparent), (b!"std::borrow::Cow", .transparent) ]

/-- the Varlink type that corresponds to a Rust type; custom types (earlier declarations) by their own `TYPE` -/
def specTy (prev : List Ty) : RT → Option Ty
  | .atom n => (lookupT n atomTable).map Prim.ty
  | .ref i => prev[i]?
  | .app c t =>
    match lookupT c ctorTable, specTy prev t with
    | some k, some x => some (k.apply x)
    | _, _ => none

/-- a doc line as a comment: its text without the surrounding blanks (`/// text` is the comment `text`) -/
def docComment (d : In) : In :=
  let isB (b : UInt8) : Bool := b == 32 || b == 9
  ((d.dropWhile isB).reverse.dropWhile isB).reverse

/-- exactly the fields, in declaration order, under their Rust names, with the corresponding types
    and the doc comments as comments -/
def specFields (prev : List Ty) (fs : List FieldD) : Option (List Field) :=
  fs.mapM fun f => (specTy prev f.ty).map fun t => (f.name, t, f.docs.map docComment)
end SpecIntro
