import Zlink.Model.Server
/-! Executable oracle for the server properties on one observed run. -/
namespace SpecSrv
open Srv

/-- Sequential reference for one connection: answers to its calls in order; an undecodable call ends
    the connection (nothing after it is answered). Reply streams never run dry here. -/
def refOut : List Desc → List Tok
  | [] => []
  | .garbage :: _ => []
  | .unser false :: _ => []
  | d :: r => answer d ++ refOut r

/-- calls that reach the service, in order (up to the first undecodable one) -/
def refServed : List Desc → List Desc
  | [] => []
  | .garbage :: _ => []
  | .unser false :: _ => [.unser false]
  | d :: r => d :: refServed r

/-- The same with reply streams that hand over only `cr` results in total (items, or the end of a stream)
    for this client: a stream that runs dry stays open, and nothing behind it is read until it ends. -/
def refOutCredit : Nat → List Desc → List Tok
  | _, [] => []
  | _, .garbage :: _ => []
  | _, .unser false :: _ => []
  | cr, .sub n p :: r =>
    if cr ≥ n + 1 then answer (.sub n p) ++ refOutCredit (cr - (n + 1)) r
    else ((itemsOf n p).take cr).map tokOf
  | cr, d :: r => answer d ++ refOutCredit cr r

def refServedCredit : Nat → List Desc → List Desc
  | _, [] => []
  | _, .garbage :: _ => []
  | _, .unser false :: _ => [.unser false]
  | cr, .sub n p :: r => .sub n p :: (if cr ≥ n + 1 then refServedCredit (cr - (n + 1)) r else [])
  | cr, d :: r => d :: refServedCredit cr r

/-- On the wire a reply `R v` and a final stream item `I v false` are the same fact
    (`parameters.v = v`, `continues = false`). -/
def norm : Tok → Tok
  | .I v (some false) => .R v
  | t => t

/-- One connection's observation. `complete` = all its bytes had arrived, it never failed, and the
    server was polled afterwards until idle. A well-behaved connection must then have received exactly
    the reference; any connection must have received a prefix of it (nothing fabricated, nothing out
    of order, no answer to a oneway call, nothing after an undecodable call). -/
def connOK (good complete : Bool) (credit : Nat) (descs : List Desc) (out : List Tok) (served : List Desc) : Bool :=
  let r := (refOut descs).map norm
  let out := out.map norm
  let s := refServed descs
  if good && complete then out == (refOutCredit credit descs).map norm && served == refServedCredit credit descs
  else (out.isPrefixOf r) && (served.isPrefixOf s)
/-- Fairness oracle for runs in which every call of every connection was buffered before the server
    ran and the connection set is fixed: `log` = connection ids in the order the service was invoked,
    `total i` = number of calls connection `i` sends. Between two consecutive services of the same
    connection, every other connection that still had an unserved call must have been served. -/
def fairOK (total : Nat → Nat) (ids : List Nat) (log : List Nat) : Bool :=
  let rec go (fuel : Nat) (before : List Nat) (rest : List Nat) : Bool :=
    match fuel, rest with
    | 0, _ => true
    | _, [] => true
    | fuel+1, a :: rest' =>
      -- next service of `a`
      let between := rest'.takeWhile (· != a)
      let again := between.length < rest'.length
      let servedBefore (b : Nat) : Nat := ((before ++ [a]).filter (· == b)).length
      let ok := !again || ids.all fun b => b == a || servedBefore b ≥ total b || between.contains b
      ok && go fuel (before ++ [a]) rest'
  go log.length [] log

/-- `SV1` runs: every caller has exactly one call waiting and the streamers' results become available before the same
    poll; `g` = the clients in the global order of the transport writes. While a stream is open other clients are
    still served: no streaming client is written to twice before every waiting caller has been answered. -/
def svOK (callers streamers : List Nat) (g : List Nat) : Bool :=
  callers.all fun b =>
    let before := g.takeWhile (· != b)
    streamers.all fun a => (before.filter (· == a)).length ≤ 1

/-- `SV2` runs: the call of client `b` arrives while the server is forwarding a reply stream - at the moment the stream of
    client `a` hands over its `k`-th item. From the `k`-th write to `a` on, no streaming client is written to twice before
    `b` has been answered: while a stream is open other clients are still served. -/
def svMidOK (trigs : List (Nat × Nat × Nat)) (streamers : List Nat) (g : List Nat) : Bool :=
  trigs.all fun (a, k, b) =>
    -- the writes after the k-th write to `a`
    let rec after (n : Nat) : List Nat → List Nat
      | [] => []
      | x :: r => if x == a then (if n + 1 == k then r else after (n + 1) r) else after n r
    let rest := after 0 g
    let before := rest.takeWhile (· != b)
    streamers.all fun a' => (before.filter (· == a')).length ≤ 1
end SpecSrv
