import Zlink.Model.Chain
/-! Specification for C06: what a chain's reply stream must yield. -/
namespace SpecChain
open Rx Chain

/-- `owedWalk kind count idx F`: the frames `F` are exactly what `count - idx` more calls are owed:
    each frame arrives while a call is still open; a final reply or a method error closes the
    current call; at the end every call is closed. -/
def owedWalk (kind : List Byte → Kind) (count : Nat) : Nat → List (List Byte) → Bool
  | idx, [] => idx == count
  | idx, f :: r =>
    idx < count &&
      match kind f with
      | .cont => owedWalk kind count idx r
      | .final => owedWalk kind count (idx + 1) r
      | .merr => owedWalk kind count (idx + 1) r
      | .bad => false

/-- Conforming server script for a chain that is owed `count` replies. -/
def Conforming (kind : List Byte → Kind) (count : Nat) (F : List (List Byte)) : Bool :=
  owedWalk kind count 0 F

/-- Oracle on a list of stream poll outcomes: items are the owed frames in order; the stream ends
    exactly when all owed frames have been yielded, and never polls past them; no failure. -/
def conforms : List SOut → List (List Byte) → Bool
  | [], _ => true
  | .pending :: t, owed => !owed.isEmpty && conforms t owed
  | .item f :: t, g :: owed => f == g && conforms t owed
  | .item _ :: _, [] => false
  | .ended :: t, owed => owed.isEmpty && conforms t owed
  | .fail _ :: _, _ => false

/-- Completeness on one observed run of the stream: once every byte the peer sends has arrived, a poll of the stream is not
    pending while a reply is still owed (the stream may not sit on a frame that is there). -/
def complete : List Ev → List SOut → (notArrived : Nat) → (owed : Nat) → Bool
  | [], _, _, _ => true
  | .arrive b :: t, outs, na, ow => complete t outs (na - b.length) ow
  | .close :: t, outs, na, ow => complete t outs na ow
  | .poll :: t, o :: outs, na, ow =>
    (match o with | .pending => !(na == 0 && decide (0 < ow)) | _ => true) &&
      complete t outs na (match o with | .item _ => ow - 1 | _ => ow)
  | .poll :: _, [], _, _ => true
end SpecChain
