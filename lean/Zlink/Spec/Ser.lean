import Zlink.Model.Ser
import Zlink.Model.Utf8
/-! Executable oracle for C03 on one observation of the implementation. -/
namespace SpecSer
open Ser

/-- Result of `to_slice` at one capacity relative to the full-capacity result. -/
inductive CapRes | same | differ | small | key
deriving DecidableEq, Repr

/-- `holds json full caps`: `json` = serde_json's compact encoding (`none` if serde_json refuses the
    value), `full` = zlink's result with ample space, `caps` = (capacity, result) pairs.
    * success ⇒ bytes identical to serde_json's, valid UTF-8, no byte below 0x20;
    * the result depends on the capacity only through "does it fit": below the length `small`,
      from the length on the same bytes; with a key error: `small` up to some capacity, `key` after. -/
def holds (json : Option (List Byte)) (full : Outcome) (caps : List (Nat × CapRes)) : Bool :=
  match full with
  | .ok bs =>
    json == some bs && Utf8.valid bs && bs.all (fun b => 32 ≤ b) &&
      caps.all (fun (c, r) => if c < bs.length then r == .small else r == .same)
  | .keyErr =>
    -- monotone: once the bytes before the error fit, the key error is reported for every larger buffer
    caps.all (fun (_, r) => r == .small || r == .key) &&
      (caps.zip (caps.drop 1)).all (fun (a, b) => !(a.2 == .key && b.2 == .small && a.1 ≤ b.1))
  | .tooSmall => false
end SpecSer
