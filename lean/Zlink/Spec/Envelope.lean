import Zlink.Model.Envelope
/-! Executable oracles for C04 / C05, independent of the decoders of the model: they look at the
    frame's members directly. -/
namespace SpecEnv
open Env

/-- What the caller was told about a reply frame. -/
abbrev Verdict := Class

/-- is `j` a well-formed payload for these fields: every member present with the right type (or
    optional and absent), nothing duplicated -/
def wellFormed (fs : List Field) (j : J) : Bool := (decodeStruct fs j).isSome

/-- C04 oracle for one reply object with members `ms`, parameter shape `P`, the caller's error
    variants `E` and the standard service errors `svc`:
    * a frame with an `error` member is never a success;
    * a service error is reported only for a frame whose `error` names that standard error, a method
      error only for one whose `error` names that declared variant;
    * completeness: a well-formed standard error is reported as that service error; otherwise a
      well-formed declared error as that method error; a well-formed success (no `error` member) as success. -/
def replyOK (svc : List Variant) (P : PShape) (E : List Variant) (ms : Members) (v : Verdict) : Bool :=
  let errName : Option String := match lookup "error" ms with | some (.str n _) => some n | _ => none
  let soundness : Bool :=
    (match v with
     | .success => !hasKey "error" ms
     | .serviceError i => (svc[i]?.map (·.name)) == errName && errName.isSome
     | .methodError i => (E[i]?.map (·.name)) == errName && errName.isSome
     | .decodeError => true)
  -- completeness on frames without duplicated envelope members
  let clean := count "error" ms ≤ 1 && count "parameters" ms ≤ 1 && count "continues" ms ≤ 1
  let wfVariant (vs : List Variant) : Option Nat :=
    match errName with
    | none => none
    | some n => match findVariant vs n with
      | none => none
      | some (i, va) =>
        match va.fields, lookup "parameters" ms with
        | none, none => some i
        | none, some .null => some i
        | none, some (.obj _) => if va.lenient then some i else none
        | some fs, some (.obj cm) => if (decodeFields fs cm).isSome then some i else none
        | _, _ => none
  let completeness : Bool :=
    if !clean then true else
    match wfVariant svc with
    | some i => v == .serviceError i
    | none =>
      match wfVariant E with
      | some i => v == .methodError i
      | none =>
        if !hasKey "error" ms &&
           (match lookup "parameters" ms with
            | none => true | some .null => true | some j => decodeP P j) &&
           (match lookup "continues" ms with
            | none => true | some .null => true | some (.bool _) => true | some _ => false)
        then v == .success else true
  soundness && completeness

/-- C05 oracle, completeness half, for one call object with members `ms` decoded as the method enum `M`:
    a frame is a *well-formed call* when it has exactly one `method` member naming a variant of `M`, every
    flag member is a JSON boolean, and its `parameters` are right for that variant — for a variant with fields
    exactly one object holding them; for a field-less variant absent or `null` (or, for the variants that
    must accept every spelling of "no parameters", an empty object). Such a frame must be accepted whatever
    the order of its members. (Frames with a duplicated `method` / `parameters` member are not judged.) -/
def callMustDecode (M : List Variant) (ms : Members) : Bool :=
  let flagOK (k : String) : Bool := (ms.filter (·.1 = k)).all fun p => match p.2 with | .bool _ => true | _ => false
  if count "method" ms != 1 || count "parameters" ms > 1 then false else
  if !(flagOK "oneway" && flagOK "more" && flagOK "upgrade") then false else
  match lookup "method" ms with
  | some (.str n _) =>
    match findVariant M n with
    | some (_, v) =>
      match v.fields, lookup "parameters" ms with
      | none, none => true
      | none, some .null => true
      | none, some (.obj []) => v.lenient
      | none, some _ => false
      | some fs, some (.obj cm) => (decodeFields fs cm).isSome
      | some _, _ => false
    | none => false
  | _ => false
end SpecEnv
