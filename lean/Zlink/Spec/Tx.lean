import Zlink.Model.Tx
/-! Specification of the send path (C02, C17-outbound): an abstract queue of accepted frames. -/
namespace SpecTx
open Tx

/-- Abstract state: the bytes accepted since the last successful flush. -/
abbrev Q := List Byte

/-- A message is accepted iff it serialises and fits under the limit together with what is queued. -/
def enqueue (C : Consts) (q : Q) : SerOutcome → Res × Q
  | .ok b => if q.length + b.length + 1 ≤ C.max then (.ok, q ++ b ++ [0]) else (.overflow, q)
  | .keyErr b => if q.length + b.length ≤ C.max then (.json, q) else (.overflow, q)

def flush (q : Q) (writeOk : Bool) : Res × Option (List Byte) × Q :=
  if q = [] then (.ok, none, q) else if writeOk then (.ok, some q, []) else (.io, none, q)

def step (C : Consts) (q : Q) : Op → Res × Option (List Byte) × Q
  | .enqueue o => let (r, q') := enqueue C q o; (r, none, q')
  | .flush w => flush q w
  | .send o w =>
    match enqueue C q o with
    | (.ok, q') => flush q' w
    | (r, q') => (r, none, q')

def run (C : Consts) : List Op → Q → List Res × List (List Byte)
  | [], _ => ([], [])
  | op :: ops, q =>
    let (r, w, q') := step C q op
    let (rs, ws) := run C ops q'
    (r :: rs, match w with | some b => b :: ws | none => ws)

/-- The oracle evaluated on an implementation observation. -/
def holds (C : Consts) (ops : List Op) (obs : List Res × List (List Byte)) : Bool :=
  obs.1 == (run C ops []).1 && obs.2 == (run C ops []).2
end SpecTx
