import Zlink.Model.DriverRx
import Zlink.Model.DriverTx
import Zlink.Model.DriverSer
import Zlink.Model.DriverChain
import Zlink.Model.DriverSrv
import Zlink.Model.DriverEnv
import Zlink.Model.DriverIdl
import Zlink.Model.DriverNotif
import Zlink.Model.DriverUnix
import Zlink.Model.DriverAlias
import Zlink.Model.DriverProxy
import Zlink.Model.DriverCg
import Zlink.Model.DriverIntro
/-! `zmodel`: reads case lines on stdin, prints for each the model's observation and the Lean
    oracle's verdict on the implementation's observation. -/

def handleLine (line : String) : String :=
  let ts := Wire.words line
  match ts with
  | "rx" :: _ => DriverRx.handle false ts
  | "rxb" :: _ => DriverRx.handle true ts
  | "rxprod" :: _ => DriverRx.handleProd ts
  | "tx" :: _ => DriverTx.handle ts
  | "ser" :: _ => DriverSer.handle ts
  | "chain" :: _ => DriverChain.handle ts
  | "srv" :: _ => DriverSrv.handle ts
  | "proxy" :: _ => DriverProxy.handle ts
  | "proxyreply" :: _ => DriverProxy.handle ts
  | "proxystream" :: _ => DriverProxy.handle ts
  | "intro" :: _ => DriverIntro.handle ts
  | "introty" :: _ => DriverIntro.handle ts
  | "intrort" :: _ => DriverIntro.handle ts
  | "cgdecl" :: _ => DriverCg.handle ts
  | "cgcall" :: _ => DriverCg.handle ts
  | "cgreply" :: _ => DriverCg.handle ts
  | "cgerr" :: _ => DriverCg.handle ts
  | "cgtype" :: _ => DriverCg.handle ts
  | "cgenc" :: _ => DriverCg.handle ts
  | "case" :: _ => DriverCg.handle ts
  | "alias" :: _ => DriverAlias.handle ts
  | "unix" :: _ => DriverUnix.handle ts
  | "notif" :: _ => DriverNotif.handle ts
  | "once" :: _ => DriverNotif.handle ts
  | "idl" :: _ => DriverIdl.handle ts
  | "idlrt" :: _ => DriverIdl.handle ts
  | "idlx" :: _ => DriverIdl.handle ts
  | "reply" :: _ => DriverEnv.handle ts
  | "calldec" :: _ => DriverEnv.handle ts
  | "enc" :: _ => DriverEnv.handle ts
  | "noparams" :: _ => DriverEnv.handle ts
  | _ => "skip"

partial def loop (h : IO.FS.Stream) (out : IO.FS.Stream) : IO Unit := do
  let line ← h.getLine
  if line.isEmpty then return ()
  out.putStrLn (handleLine line)
  loop h out

def main : IO Unit := do
  let i ← IO.getStdin
  let o ← IO.getStdout
  loop i o
