-- Root of the `Zlink` library: models, specs, proofs and property theorems.
import Zlink.Model.Rx
import Zlink.Proofs.Rx
