#!/usr/bin/env python3
"""Generates the corpora of the compiled-corpus harness `zvc` (C12 proxy traits, C15 generated code,
C16 derives) from a seed, runs stage A (`zvg`: the code generator on the IDL corpus, heck on the
name list), and builds `zvc`, isolating generated modules that do not compile.

    corpora.py <seed> <quick|thorough>      (used by bin/setup; bin/props.py calls `generate`)

Result (also returned by `generate`): {"cg_failed": {idx: {"where": "generated"|"exercise", "error": ...}},
"in_failed": {...}, "px_failed": {...}, "notes": [...], "ok": bool}."""
import os, sys, re, subprocess, json, itertools

VERIF = os.path.dirname(os.path.dirname(os.path.abspath(__file__)))
CORPUS = os.path.join(VERIF, "corpus")
HARNESS = os.path.join(VERIF, "harness")
ZVC = os.path.join(HARNESS, "zvc")
ZVC_SRC = os.path.join(ZVC, "src")
ENV = dict(os.environ, CARGO_NET_OFFLINE="true")

sys.path.insert(0, CORPUS)


def sizes(tier):
    if tier == "thorough":
        return {"proxy": 600, "cg": 300, "intro": 400}
    return {"proxy": 60, "cg": 25, "intro": 80}


def sh(cmd, cwd=None, inp=None, timeout=3600):
    p = subprocess.run(cmd, cwd=cwd, input=inp, stdout=subprocess.PIPE, stderr=subprocess.STDOUT, env=ENV, timeout=timeout)
    return p.returncode, p.stdout.decode("utf-8", "replace")


def write_if_changed(path, text):
    try:
        if open(path).read() == text:
            return
    except OSError:
        pass
    open(path, "w").write(text)


def case_names():
    """every string of length 1..5 over {a, B, 2, _} plus the corpus' own name pools"""
    import gen_cg
    names = []
    for n in range(1, 6):
        for t in itertools.product("aB2_", repeat=n):
            names.append("".join(t))
    for pool in (gen_cg.METHOD_NAMES, gen_cg.FIELD_NAMES, gen_cg.VARIANT_NAMES, gen_cg.TYPE_NAMES, gen_cg.ERROR_NAMES, gen_cg.IFACE_LAST):
        names += pool
    names += ["XMLHttpRequest", "FIELD_NAME11", "SHOUTY_SNAKE_CASE", "aBCd", "ABcD", "aB2cD", "a2B", "A2b", "get2FA", "IPv6", "iPv6Addr", "foo-bar", "x__y", "_a", "a_"]
    return names


def cargo_build(package):
    lock = os.path.join(HARNESS, "Cargo.lock")
    if not os.path.exists(lock):
        import shutil
        shutil.copy("/repo/Cargo.lock", lock)
    rc, out = sh(["cargo", "build", "--release", "--offline", "-p", package], cwd=HARNESS)
    if rc != 0:
        import shutil
        shutil.copy("/repo/Cargo.lock", lock)
        rc, out = sh(["cargo", "build", "--release", "--offline", "-p", package], cwd=HARNESS)
    return rc, out


def generate(seed, tier):
    import gen_cg
    n = sizes(tier)
    res = {"cg_failed": {}, "in_failed": {}, "px_failed": {}, "notes": [], "ok": True, "sizes": n}
    py = sys.executable
    subprocess.run([py, os.path.join(CORPUS, "gen_proxy.py"), str(seed), str(n["proxy"]), os.path.join(ZVC_SRC, "gen_proxy.rs")], check=True)
    idl_dir = os.path.join(ZVC, "cg")
    subprocess.run([py, os.path.join(CORPUS, "gen_cg.py"), str(seed), str(n["cg"]), idl_dir, ZVC_SRC], check=True)
    if os.path.exists(os.path.join(CORPUS, "gen_intro.py")):
        subprocess.run([py, os.path.join(CORPUS, "gen_intro.py"), str(seed), str(n["intro"]), ZVC_SRC], check=True)
    # stage A: the code generator and heck, from /repo's working tree
    rc, out = cargo_build("zvg")
    if rc != 0:
        res["ok"] = False
        res["notes"].append("stage-A binary zvg does not build against /repo's working tree:\n" + out[-3000:])
        return res
    zvg = os.path.join(HARNESS, "target", "release", "zvg")
    rc, out = sh([zvg, "gen", idl_dir, os.path.join(ZVC_SRC, "gencg")])
    if rc != 0:
        res["ok"] = False
        res["notes"].append("zvg gen failed:\n" + out[-2000:])
        return res
    write_if_changed(os.path.join(idl_dir, "decl.txt"), out)
    names = case_names()
    rc, out = sh([zvg, "case"], inp=("\n".join(names) + "\n").encode())
    write_if_changed(os.path.join(idl_dir, "case.txt"), out)
    # the generator's own port of heck must agree with heck (else its exercise code is misspelled)
    for nm, line in zip(names, out.splitlines()):
        t = line.split()
        got = (bytes.fromhex(t[3]).decode() if t[3] != "-" else "", bytes.fromhex(t[4]).decode() if t[4] != "-" else "")
        if got != (gen_cg.snake(nm), gen_cg.pascal(nm)):
            res["ok"] = False
            res["notes"].append(f"corpus generator's heck port disagrees with heck on {nm!r}: heck {got}, port {(gen_cg.snake(nm), gen_cg.pascal(nm))}")
            return res
    # build, isolating generated modules that do not compile
    skip = set()
    iskip = set()
    pskip = set()
    for attempt in range(12):
        rc, out = cargo_build("zvc")
        if rc == 0:
            break
        bad = {}
        for m in re.finditer(r"^(error[^\n]*)\n\s*--> zvc/src/gencg/([mx])(\d+)\.rs:(\d+):(\d+)", out, re.M):
            idx = int(m.group(3))
            where = "generated" if m.group(2) == "m" else "exercise"
            if idx not in bad or (where == "generated" and bad[idx]["where"] == "exercise"):
                bad[idx] = {"where": where, "error": m.group(1), "at": f"{m.group(2)}{idx}.rs:{m.group(4)}"}
        # derive corpus: one file, modules located by line
        ibad = {}
        try:
            ranges = json.load(open(os.path.join(ZVC_SRC, "gen_intro.lines.json")))
        except OSError:
            ranges = []
        for m in re.finditer(r"^(error[^\n]*)\n\s*--> zvc/src/gen_intro\.rs:(\d+):(\d+)", out, re.M):
            ln = int(m.group(2))
            for r in ranges:
                if r["start"] <= ln <= r["end"] and r["idx"] not in ibad:
                    ibad[r["idx"]] = {"error": m.group(1), "at": f"gen_intro.rs:{ln}", "decl": r["decl"]}
        # proxy corpus: one file, one module per trait, located by line
        pbad = {}
        try:
            pranges = json.load(open(os.path.join(ZVC_SRC, "gen_proxy.lines.json")))
        except OSError:
            pranges = []
        for m in re.finditer(r"^(error[^\n]*)\n\s*--> zvc/src/gen_proxy\.rs:(\d+):(\d+)", out, re.M):
            ln = int(m.group(2))
            for r in pranges:
                if r["start"] <= ln <= r["end"] and r["idx"] not in pbad:
                    pbad[r["idx"]] = {"error": m.group(1), "at": f"gen_proxy.rs:{ln}", "decl": r["decl"]}
        pnew = set(pbad) - pskip
        if pnew:
            for idx in pnew:
                res["px_failed"][idx] = pbad[idx]
            pskip |= pnew
            subprocess.run([py, os.path.join(CORPUS, "gen_proxy.py"), str(seed), str(n["proxy"]), os.path.join(ZVC_SRC, "gen_proxy.rs"), ",".join(str(x) for x in sorted(pskip))], check=True)
        inew = set(ibad) - iskip
        if inew:
            for idx in inew:
                res["in_failed"][idx] = ibad[idx]
            iskip |= inew
            subprocess.run([py, os.path.join(CORPUS, "gen_intro.py"), str(seed), str(n["intro"]), ZVC_SRC, ",".join(str(x) for x in sorted(iskip))], check=True)
        new = set(bad) - skip
        if not new and (inew or pnew):
            continue
        if not new:
            res["ok"] = False
            res["notes"].append("corpus crate zvc does not build (not attributable to a generated module):\n" + out[-3000:])
            return res
        for idx in new:
            b = bad[idx]
            b["idl"] = open(os.path.join(idl_dir, f"{idx}.idl")).read()
            res["cg_failed"][idx] = b
        skip |= new
        subprocess.run([py, os.path.join(CORPUS, "gen_cg.py"), str(seed), str(n["cg"]), idl_dir, ZVC_SRC, ",".join(str(x) for x in sorted(skip))], check=True)
    else:
        res["ok"] = False
        res["notes"].append("corpus crate zvc still does not build after isolating " + str(sorted(skip)))
    return res


if __name__ == "__main__":
    r = generate(int(sys.argv[1]), sys.argv[2] if len(sys.argv) > 2 else "quick")
    print(json.dumps({k: v for k, v in r.items() if k != "cg_failed"} | {"cg_failed": sorted(r["cg_failed"])}, indent=1))
    sys.exit(0 if r["ok"] else 1)
