"""Per-property configuration for bin/check (see DESIGN.md §5)."""
import json, os, hashlib, collections

VERIF = os.path.dirname(os.path.dirname(os.path.abspath(__file__)))

TB_COMMON = [
    "Lean 4.33.0 kernel (thorough tier re-checks the property modules with leanchecker); axioms limited to propext, Classical.choice, Quot.sound (audited per theorem with #print axioms)",
    "extract/extract.py: regex-level translator of constants/tables from /repo into Zlink/Gen/Consts.lean",
    "correspondence harness /verif/harness (generators, scripted sockets, manual executor, canonicalisation) and the line-protocol driver lean/Main.lean",
    "rustc/cargo and the third-party crates zlink depends on (serde, serde_json, futures-util)",
]


def short(s, n=300):
    return s if len(s) <= n else s[:n] + f"...({len(s)} chars)"


def split_case(line):
    if " =>" in line:
        a, b = line.split(" =>", 1)
        return a, b.strip()
    return line, ""


def parse_model(m):
    # "M <toks> | H <b>" (+ optional " | X <extra>")
    parts = [p.strip() for p in m.split(" | ")]
    model = parts[0][1:].strip() if parts and parts[0].startswith("M") else None
    h = None
    extra = ""
    for p in parts[1:]:
        if p.startswith("H "):
            h = p[2:].strip()
        elif p.startswith("X "):
            extra = p[2:].strip()
    return model, h, extra


def diff_run(run, G, scen_args, prefix, nontrivial, label, known_key=None, tier=None, seed_offset=0,
             record=True, extra_args=None):
    """Runs a scenario on the implementation, the model and the Lean oracle on the same lines.
    Returns (n_cases, n_oracle_fail, n_disagree)."""
    run0_seed = run.seed
    run.seed = run0_seed + seed_offset
    try:
        lines = G["run_scenario"](run, scen_args, tier=tier, extra=extra_args)
    finally:
        run.seed = run0_seed
    if lines is None:
        path = run.replay_path(label + "-scenario-crash")
        json.dump({"property": run.pid, "scenario": scen_args, "what": "scenario binary crashed on the current tree",
                   "notes": run.notes[-3:]}, open(path, "w"), indent=1)
        run.violations.append(("crash", path, ""))
        return 0, 0, 0
    cases = [l for l in lines if l.startswith(prefix + " ")]
    side = [l for l in lines if not l.startswith(prefix + " ")]
    panics = [l for l in side if l.startswith("panic ")]
    if panics:
        import re as _re
        m = _re.search(r"index=(\d+)", panics[0])
        path = run.replay_path(label + "-panic")
        json.dump({"property": run.pid, "kind": "the implementation panicked on this case (re-run with --replay to see the case: it is regenerated from scenario, tier, seed and index)",
                   "scenario": scen_args, "tier": tier or run.tier, "seed": run.seed + seed_offset, "index": int(m.group(1)) if m else 0,
                   "case_line": panics[0], "panics_total": len(panics),
                   "replay": f"cd /verif && bin/check {run.pid} --replay {path}"}, open(path, "w"), indent=1)
        run.violations.append(("impl", path, ""))
    mouts = G["run_model"](cases) if cases else []
    if mouts is None or len(mouts) != len(cases):
        path = run.replay_path(label + "-driver")
        json.dump({"property": run.pid, "what": "model driver failed or answered a different number of lines",
                   "cases": len(cases), "answers": None if mouts is None else len(mouts)}, open(path, "w"), indent=1)
        run.violations.append(("driver", path, "no-failing-input-found"))
        return len(cases), 0, 0
    known = [k for k in G["load_known"]()["findings"] if k["property"] == run.pid]
    n_fail = n_dis = 0
    distinct = set()
    hist = collections.Counter()
    fails, disagreements = [], []
    for idx, (l, m) in enumerate(zip(cases, mouts)):
        inp, impl = split_case(l)
        model, h, extra = parse_model(m)
        nt = nontrivial(inp, impl)
        for k in nt:
            hist[k] += 1
        if nt:
            distinct.add(hashlib.sha1(l.encode()).hexdigest())
        if h == "0":
            n_fail += 1
            fails.append((len(l), idx, l, m))
        elif " ".join((model or "").split()) != " ".join(impl.split()):
            n_dis += 1
            disagreements.append((len(l), idx, l, m))
    # implementation-vs-independent-oracle lines emitted by the harness itself
    om = [l for l in side if l.startswith("oracle-mismatch")]
    for l in om:
        fails.append((len(l), -1, l, "harness-side oracle"))
        n_fail += 1
    if record:
        run.cov["evaluations"] = run.cov.get("evaluations", 0) + len(cases)
        run.cov["distinct_nontrivial"] = run.cov.get("distinct_nontrivial", 0) + len(distinct)
        run.cov["traces_validated_against_impl"] = run.cov.get("traces_validated_against_impl", 0) + (len(cases) - n_dis - n_fail)
        h0 = run.cov.setdefault("histogram", {})
        for k, v in hist.items():
            h0[f"{label}:{k}"] = h0.get(f"{label}:{k}", 0) + v
        ss = run.cov.setdefault("samples", [])
        step = max(1, len(cases) // 3)
        for l, m in list(zip(cases, mouts))[::step][:3]:
            ss.append({"scenario": label, "case": short(l), "model_and_oracle": short(m)})
    if fails:
        fails.sort()
        reported_known = set()
        unknown = []
        for ln, idx, l, m in fails:
            key = (known_key(l, m) if getattr(known_key, "wants_model", False) else known_key(l)) if known_key else None
            # a listed finding is behaviour of the pinned code, which the model reproduces: a failing case on which
            # model and implementation *disagree* is something else and is never matched to a listed finding
            mm, _, _ = parse_model(m) if m != "harness-side oracle" else (None, None, None)
            if mm is not None and " ".join(mm.split()) != " ".join(split_case(l)[1].split()):
                key = None
            hit = next((k for k in known if key is not None and k["key"] == key), None)
            if hit:
                if hit["key"] not in reported_known:
                    reported_known.add(hit["key"])
                    run.known.append(f"{hit['what']} [key={hit['key']}]")
            else:
                unknown.append((ln, idx, l, m))
        if unknown:
            ln, idx, l, m = unknown[0]
            path = run.replay_path(label + "-failing-input")
            json.dump({"property": run.pid, "kind": "the property fails on the real code on this input (Lean oracle on the implementation's observation)",
                       "scenario": scen_args, "tier": tier or run.tier, "seed": run.seed + seed_offset, "index": idx,
                       "case_line": l, "model_and_oracle": m, "failing_cases_total": len(unknown),
                       "replay": f"cd /verif && bin/check {run.pid} --replay {path}"}, open(path, "w"), indent=1)
            run.violations.append(("impl", path, ""))
    if disagreements:
        disagreements.sort()
        ln, idx, l, m = disagreements[0]
        path = run.replay_path(label + "-correspondence")
        json.dump({"property": run.pid, "kind": "correspondence broken: model and implementation disagree on this input while the oracle still accepts the implementation's observation",
                   "scenario": scen_args, "tier": tier or run.tier, "seed": run.seed + seed_offset, "index": idx,
                   "case_line": l, "model_and_oracle": m, "disagreements_total": len(disagreements)}, open(path, "w"), indent=1)
        run.pending_corr = getattr(run, "pending_corr", []) + [(label, path)]
    return len(cases), n_fail, n_dis


def finish_corr(run, G, searches):
    """Correspondence broken but no failing input yet: search harder, then report."""
    pend = getattr(run, "pending_corr", [])
    if not pend:
        return
    if not any(v[2] == "" for v in run.violations):
        for s in searches:
            s()
            if any(v[2] == "" for v in run.violations):
                break
    if not any(v[2] == "" for v in run.violations):
        for label, path in pend:
            run.violations.append(("corr", path, "no-failing-input-found"))
    else:
        run.notes.append("correspondence also broken: " + ", ".join(p for _, p in pend))


# ------------------------------------------------------------------------------------ rx (C01, C07)

def rx_nontrivial(inp, impl):
    toks = impl.split()
    ks = []
    n_ok = sum(1 for t in toks if t.startswith("ok:") or t.startswith("svc:"))
    if n_ok:
        ks.append("delivered")
    if "json" in toks:
        ks.append("decode-error")
    if "pend" in toks:
        ks.append("pending-poll")
    if "eof" in toks:
        ks.append("eof")
    if "overflow" in toks:
        ks.append("overflow")
    if " Q" in inp and " P" in inp:
        ks.append("mixed-drop-and-retain")
    if "r" in inp and "x" in inp and "+" in inp:
        ks.append("long-frame")
    return ks


def run_rx(run, cfg, G):
    diff_run(run, G, ["rx"], "rx", rx_nontrivial, "rx")
    def search():
        for off in (1, 2, 3):
            diff_run(run, G, ["rx"], "rx", rx_nontrivial, f"rx-search{off}", tier="thorough", seed_offset=off, record=False)
            if any(v[2] == "" for v in run.violations):
                return
    finish_corr(run, G, [search])
    run.cov["rule"] = ("cases = receiver kind x frames (valid/wrong-shape/malformed/padded/raw/sized at 256k-2..256k+2) x arrival cuts "
                       "(every single cut and sampled pairs of short streams, random cuts of long ones) x read-size schedules x poll patterns "
                       "(P = poll a fresh receive future once and drop it, Q = poll the retained future); a case is non-trivial when at least one "
                       "frame was delivered, a decode error was returned, a poll was pending or end-of-stream was reported; distinct = distinct case lines")


def run_c07(run, cfg, G):
    """C07 = the receive path under abandoned receives (rx) + the server's own way of abandoning them (srv)."""
    diff_run(run, G, ["rx"], "rx", rx_nontrivial, "rx")
    diff_run(run, G, ["srv"], "srv", srv_nontrivial, "srv")
    def search():
        for off in (1, 2, 3):
            diff_run(run, G, ["rx"], "rx", rx_nontrivial, f"rx-search{off}", tier="thorough", seed_offset=off, record=False)
            if any(v[2] == "" for v in run.violations):
                return
        diff_run(run, G, ["srv"], "srv", srv_nontrivial, "srv-search", tier="thorough", seed_offset=1, record=False)
    finish_corr(run, G, [search])
    run.cov["rule"] = ("rx: receiver kind x frames (valid/wrong-shape/malformed/padded/raw/sized at 256k-2..256k+2) x arrival cuts x read-size schedules x poll patterns "
                       "(P = poll a fresh receive future once and drop it, Q = poll the retained future, W = poll it only when its waker fired); "
                       "srv: the real Server::run, which abandons every connection's receive future whenever its select completes, on 1..4 connections with interleaved arrivals; "
                       "non-trivial = a frame delivered / an error / a pending poll / end-of-stream (rx), replies delivered etc. (srv); distinct = distinct case lines")


def search_rx(run, cfg, G):
    for off in (0, 1, 2):
        diff_run(run, G, ["rx"], "rx", rx_nontrivial, f"rx-search{off}", tier="thorough", seed_offset=off, record=False)
        if any(v[2] == "" for v in run.violations):
            return


# ------------------------------------------------------------------------------------ tx (C02, C17)

def tx_nontrivial(inp, impl):
    ks = []
    res, _, wr = impl.partition(";")
    rt = res.split()
    if "ok" in rt:
        ks.append("accepted")
    if "json" in rt:
        ks.append("refused-serialisation")
    if "overflow" in rt:
        ks.append("refused-overflow")
    if "io" in rt:
        ks.append("write-failed")
    if len(wr.split()) >= 2:
        ks.append("several-writes")
    if " E" in inp and inp.count(" E") >= 2:
        ks.append("pipelined-enqueues")
    return ks


def hook_limit():
    import re
    t = open(os.path.join(VERIF, "lean", "Zlink", "Gen", "Consts.lean")).read()
    m = re.search(r"def maxBufferSizeHook : Nat := (\d+)", t)
    return m.group(1) if m else "65536"


def run_tx(run, cfg, G):
    diff_run(run, G, ["tx"], "tx", tx_nontrivial, "tx")
    # histories that reach the (hook-lowered) size limit: "a message whose serialization is refused contributes no bytes
    # and leaves earlier enqueued messages and the connection usable" also covers a message refused for its size
    diff_run(run, G, ["tx-bounds"], "tx", tx_nontrivial, "tx-at-the-limit", extra_args=["--limit", hook_limit()])
    def search():
        for off in (1, 2):
            diff_run(run, G, ["tx"], "tx", tx_nontrivial, f"tx-search{off}", tier="thorough", seed_offset=off, record=False)
            if any(v[2] == "" for v in run.violations):
                return
    finish_corr(run, G, [search])
    run.cov["rule"] = ("histories of 1..12 operations over enqueue_call / send_call / send_reply / send_error / flush on the real Connection with a capturing "
                       "transport: (a) for every free-space value 0..600 a first message leaving exactly that much room, then a message of a chosen span; "
                       "(b) random histories with messages of 0..4 (thorough 0..40) growth steps, refused serialisations (custom Serialize error, bool map key) at any "
                       "position, chains (chain_call / append / send) after enqueued calls, and occasional transport write failures; plus the histories of scenario tx-bounds (messages around the hook-lowered size limit at "
                       "every fill level, refused for their body or only for their terminator, then further traffic); reference bytes per message from serde_json::to_vec; non-trivial = at least one message accepted, "
                       "refused, or several writes; distinct = distinct case lines")


def run_bounds(run, cfg, G):
    lim = hook_limit()
    diff_run(run, G, ["rx-bounds"], "rxb", rx_nontrivial, "rx-bounds", extra_args=["--limit", lim])
    diff_run(run, G, ["tx-bounds"], "tx", tx_nontrivial, "tx-bounds", extra_args=["--limit", lim])
    def search():
        diff_run(run, G, ["rx-bounds"], "rxb", rx_nontrivial, "rx-bounds-search", tier="thorough", seed_offset=1, record=False, extra_args=["--limit", lim])
        diff_run(run, G, ["tx-bounds"], "tx", tx_nontrivial, "tx-bounds-search", tier="thorough", seed_offset=1, record=False, extra_args=["--limit", lim])
    # the production build (no hook): the inbound limit as shipped, around the extracted production value
    import re as _re
    t = open(os.path.join(VERIF, "lean", "Zlink", "Gen", "Consts.lean")).read()
    pm = _re.search(r"def maxBufferSizeProd : Nat := (\d+)", t)
    if pm and G["build_harness"](run, "zvrt"):
        G["ENV"]["ZLINK_PROD_LIMIT"] = pm.group(1)
        old = run.binary
        run.binary = "zvrt"
        try:
            diff_run(run, G, ["prod"], "rxprod", lambda i, o: ["production-" + o.split()[0]], "rx-production-limit")
        finally:
            run.binary = old
        run.cov["production_limit"] = int(pm.group(1))
    else:
        run.notes.append("production-limit run skipped: zvrt did not build or the production constant was not extracted")
    finish_corr(run, G, [search])
    run.cov["limit_used"] = int(lim)
    run.cov["rule"] = ("with the hook-lowered limit (extracted from the source, passed to the generator): inbound lone frames of wire size 256k-2..256k+2 for sampled (thorough: all) k up to "
                       "limit/256+2, limit-3..limit+3, random sizes, and unterminated input of limit, limit+1, limit+300 bytes, each under 2 (thorough 5) chunkings/poll patterns; "
                       "outbound single messages of wire size limit-3..limit+258, sizes near multiples of 256, and fill level p + message len around p+len+1 = limit; "
                       "non-trivial = delivered / overflow / refused observed; distinct = distinct case lines")


# ------------------------------------------------------------------------------------ ser (C03)

def ser_nontrivial(inp, impl):
    ks = []
    toks = impl.split()
    if toks and toks[0].startswith("ok:"):
        ks.append("encoded")
    if toks and toks[0] == "keyerr":
        ks.append("key-refused")
    if len(toks) > 1 and "s" in toks[1] and ("O" in toks[1] or "k" in toks[1]):
        ks.append("capacity-boundary-crossed")
    v = inp.split(" J ")[0]
    if "m" in v and "(" in v:
        ks.append("map-or-struct")
    if "q" in v and "(" in v:
        ks.append("seq-or-tuple")
    if " Vv" in v or ":v" in v or ",v" in v or "(v" in v:
        ks.append("enum-variant")
    return ks


def run_ser(run, cfg, G):
    diff_run(run, G, ["ser"], "ser", ser_nontrivial, "ser")
    # exhaustive/strided f32 sweep: implementation vs serde_json only
    lines = G["run_scenario"](run, ["ser-f32"]) or []
    for l in lines:
        if l.startswith("f32-sweep"):
            run.cov["f32_sweep"] = l
        if l.startswith("oracle-mismatch"):
            path = run.replay_path("ser-f32")
            json.dump({"property": run.pid, "kind": "zlink and serde_json disagree on this f32", "case_line": l}, open(path, "w"), indent=1)
            run.violations.append(("impl", path, ""))
            break
    def search():
        diff_run(run, G, ["ser"], "ser", ser_nontrivial, "ser-search", tier="thorough", seed_offset=1, record=False)
    finish_corr(run, G, [search])
    run.cov["rule"] = ("three-way per value: zlink to_slice (cfg hook) at ample capacity and at every (small values) or sampled buffer length 0..len+1, serde_json::to_vec, and the Lean model fed with the "
                       "data-model events captured by a recording serde::Serializer; values: every Unicode scalar < 0x3000 plus 4096 sampled (thorough: all 1 112 064) as string / char / map key, all pairs of 40 "
                       "escape-relevant bytes, all i8/u8, strided (thorough: all) i16/u16, sampled f32/f64 bit patterns, random nested trees of depth <= 5 over every serde shape incl. refused key kinds; "
                       "also the public path send_reply(&Reply<T>); non-trivial = encoded / key refused / capacity boundary crossed; distinct = distinct case lines")


def search_ser(run, cfg, G):
    diff_run(run, G, ["ser"], "ser", ser_nontrivial, "ser-search", tier="thorough", seed_offset=0, record=False)


# ------------------------------------------------------------------------------------ chain (C06)

def chain_nontrivial(inp, impl):
    ks = []
    parts = impl.split(";")
    st = parts[1].split() if len(parts) > 1 else []
    if any(t.startswith("it:") for t in st):
        ks.append("items-yielded")
    if "ended" in st:
        ks.append("stream-ended")
    if "pend" in st:
        ks.append("pending-poll")
    k = inp.split(" F")[0]
    if " o:" in k:
        ks.append("has-oneway")
    if " m:" in k:
        ks.append("has-more")
    if " o:" in k and " m:" not in k and " p:" not in k:
        ks.append("all-oneway")
    if "=c=" in inp:
        ks.append("continuing-replies")
    if " T " in inp and not inp.split(" T ")[1].startswith("S"):
        ks.append("trailing-frames")
    return ks


def run_chain(run, cfg, G):
    diff_run(run, G, ["chain"], "chain", chain_nontrivial, "chain")
    def search():
        diff_run(run, G, ["chain"], "chain", chain_nontrivial, "chain-search", tier="thorough", seed_offset=1, record=False)
    finish_corr(run, G, [search])
    run.cov["rule"] = ("all 1092 chains of 1..6 calls over {plain, oneway, more} (x2 quick, x12 thorough random instantiations) built through Connection::chain_call/append/send, each with a conforming reply "
                       "script (0..3 continuing replies before the final reply or declared error of a more call), 0..2 trailing unrelated frames, random cuts / read sizes / poll points, plus every single "
                       "cut position of the reply bytes for 12 (60) short chains; the reply stream is polled by hand, dropped, and the connection then receives the remaining frames; "
                       "observation = write boundaries, stream items, frames still receivable; non-trivial = items yielded / stream ended / pending seen; distinct = distinct case lines")


# ------------------------------------------------------------------------------------ server (C08, C09, C10, C18)

def srv_nontrivial(inp, impl):
    ks = []
    d = inp.split(" E ")[0]
    nconn = d.count(":g:") + d.count(":b:")
    if nconn >= 2:
        ks.append("multi-connection")
    if ":b:" in d:
        ks.append("faulty-connection")
    if ",s" in d or ":s" in d:
        ks.append("streaming-call")
    if ",E" in d or ":E" in d or ",F" in d or ":F" in d:
        ks.append("oneway-call")
    if "g" in d.replace(":g:", ":"):
        ks.append("undecodable-call")
    if " r" in inp or " x" in inp:
        ks.append("close-or-read-error")
    if ":1" in impl:
        ks.append("stream-items-delivered")
    if " k" in inp:
        ks.append("stream-readiness-by-events")
    if "V" in impl or "E" in impl:
        ks.append("replies-delivered")
    if " W1 " in inp or inp.startswith("W1 "):
        ks.append("wake-driven-executor")
    return ks


def run_srv_scenarios(names):
    def run(run_, cfg, G):
        for nm in names:
            diff_run(run_, G, [nm], "srv", srv_nontrivial, nm)
        def search():
            for nm in names:
                diff_run(run_, G, [nm], "srv", srv_nontrivial, nm + "-search", tier="thorough", seed_offset=1, record=False)
                if any(v[2] == "" for v in run_.violations):
                    return
        finish_corr(run_, G, [search])
        run_.cov["rule"] = ("the real Server::run future polled by a manual executor with a scripted listener, scripted sockets and a recording test service "
                            "(echo / error / stream of n items / undecodable call, each possibly oneway); 1..5 connections x scripts of 0..6 (flooders: 0..12) pipelined calls x random interleavings of connection arrival, byte "
                            "arrival split at arbitrary positions, close, server polls; fault scenarios add truncated frame + EOF, EOF mid-burst, read error, write failure at the k-th write; every schedule ends with everything "
                            "delivered and the server polled to idleness; observation = per-connection output frames, global service-invocation order, server future still pending; "
                            "non-trivial = several connections / faults / streams / oneway / replies delivered; distinct = distinct case lines")
    return run


SRV_ASSUME = [
    "the service is the fixed family the harness implements (echo / error / stream of n items / undecodable call; a stream hands over a result - an item or its end - only while its client has an allowance, which `k<id>:<n>` events raise: until then its next() is pending); answers depend on the call only (per-call deterministic service)",
    "futures_util::select_biased!, fuse and StreamExt::next poll in the documented order (branch order; first ready wins); accept errors are not among the modelled events",
    "well-behaved connection = whole frames, close only after everything was sent, writable transport, whole per-connection stream below MAX_BUFFER_SIZE; nothing is assumed about other connections",
    "liveness: C08_quiescent proves that in every reachable idle state (no select branch can progress) every well-behaved connection whose bytes have all arrived has had all its calls answered (exactly the reference output); the waker contract is part of the model (Srv.runW: the task is polled when spawned and then only when an event woke it; Srv.wakes: an event wakes it iff its source is one the parked loop waits on): C08_no_lost_wakeup (a task that is not scheduled has nothing to do), C08_wake_driven (wake-driven polling computes the states of polling after every event), C08_parked_all_answered; on the code two cases in five run under a wake-driven executor with a listener, sockets and reply streams that keep the waker of a pending poll and wake it when their event happens (a lost wake-up shows as an unanswered client); "
    "the oracle additionally checks the same at the end of each schedule",
    "the flags on stream items follow one of four patterns of the test service (conventional / all true / alternating / unflagged); item readiness is an environment event in the model (Ev.produce) and in the harness (a stream type that is Pending without allowance); one case in 2 (srv-stream) / 4 (others) is gated, a third of those ends with streams still open and silent while every other connection must have been served in full",
]

# ------------------------------------------------------------------------------------ envelope (C04, C05)

def reply_nontrivial(inp, impl):
    ks = []
    if impl == "ok":
        ks.append("classified-success")
    if impl.startswith("me:"):
        ks.append("classified-method-error")
    if impl.startswith("se:"):
        ks.append("classified-service-error")
    if impl == "json":
        ks.append("classified-decode-error")
    j = inp.split(" J ")[-1] if " J " in inp else ""
    if "6572726f72:" in j:
        ks.append("has-error-member")
    return ks


def env_nontrivial(inp, impl):
    ks = []
    kind = inp.split(" ", 1)[0]
    ks.append(kind)
    if impl.startswith("ok"):
        ks.append(kind + "-accepted")
    if impl == "json":
        ks.append(kind + "-refused")
    return ks


def env_known_key(line):
    # canonical key of a failing envelope case: the explicit `noparams` witnesses only
    if line.startswith("noparams "):
        return " ".join(line.split(" =>")[0].split())
    return None


def run_reply(run, cfg, G):
    diff_run(run, G, ["reply"], "reply", reply_nontrivial, "reply")
    def search():
        diff_run(run, G, ["reply"], "reply", reply_nontrivial, "reply-search", tier="thorough", seed_offset=1, record=False)
    finish_corr(run, G, [search])
    run.cov["rule"] = ("36 compiled receivers = 6 parameter types (unit, serde_json::Value, strict struct, borrowed-str struct, all-optional struct, mixed struct) x 6 error types (derive-generated: unit + struct variants, "
                       "borrowed fields, renamed/optional fields, empty enum, bool/Value fields, renamed variants); per receiver 700 (thorough 8000) type-directed reply objects: success with right / wrong / missing / extra / positional parameters "
                       "and continues of every kind; declared errors with right / wrong / missing / extra / absent / null / {} parameters; the six standard errors likewise; undeclared names; non-string error members; "
                       "well-formed successes that also carry an error member; shuffled member order, occasional duplicates; the class reported by receive_reply is compared with the model and judged by the Lean oracle; "
                       "non-trivial = any class observed; distinct = distinct case lines")


def run_envelope(run, cfg, G):
    for pre in ("calldec", "enc", "noparams"):
        diff_run(run, G, ["envelope"], pre, env_nontrivial, "envelope-" + pre, known_key=env_known_key)
    # decode direction of derived errors (any member order, renamed variants and fields): the receivers of C04's corpus
    diff_run(run, G, ["reply"], "reply", reply_nontrivial, "envelope-errdec")
    def search():
        for pre in ("calldec", "enc"):
            diff_run(run, G, ["envelope"], pre, env_nontrivial, "envelope-search-" + pre, tier="thorough", seed_offset=1, record=False, known_key=env_known_key)
    finish_corr(run, G, [search])
    run.cov["rule"] = ("calldec: 4 method types (owned / borrowed adjacently tagged enums, varlink_service::Method, a plain struct) x all 8 subsets of present flags x their values x ALL permutations of the (<= 5) members, "
                       "with unknown members, wrong / missing / null / {} parameters, unknown or non-string method, non-boolean and repeated flags, decoded through receive_call; "
                       "enc: calls (flags in all combinations), derived and standard errors, replies with/without parameters/continues sent through the connection and compared byte for byte with the model's encoder; "
                       "noparams: absent / null / {} parameters for GetInfo, a standard error, a derived field-less error and a unit-output reply; errdec: the reply corpus of C04 (derived errors decoded from shuffled members, with renamed variants and fields); non-trivial = accepted / refused per kind; distinct = distinct case lines")


# ------------------------------------------------------------------------------------ idl (C13, C14)

def idl_nontrivial(inp, impl):
    ks = []
    if impl.startswith("ok"):
        ks.append("accepted")
    if impl == "error":
        ks.append("rejected")
    if " X I" in inp:
        ks.append("legal-generated-text")
    else:
        ks.append("mutated-truncated-or-soup")
    return ks


def idl_known_key(line):
    import re as _re
    if line.startswith("idlrt-inline-witness"):
        return "inline-enum-variant-comment"
    if line.startswith("idlrt "):
        t = line.split(" T ", 1)[1].split(" =>")[0]
        if _re.search(r"V[0-9a-f]+\{[0-9a-f-]", t):      # `-` is the empty comment
            return "commented-enum-variant"
    return None


def run_idl(run, cfg, G):
    diff_run(run, G, ["idl"], "idl", idl_nontrivial, "idl", known_key=idl_known_key)
    def search():
        diff_run(run, G, ["idl"], "idl", idl_nontrivial, "idl-search", tier="thorough", seed_offset=1, record=False, known_key=idl_known_key)
    finish_corr(run, G, [search])
    run.cov["rule"] = ("interface descriptions from a grammar-driven generator (0..6 members, type depth 0..4, names over alphabets hitting every character class and boundary of the three name regexes, comments on "
                       "interface / members / fields / parameters / variants) laid out with random legal inter-token whitespace (space, tab, LF, CRLF) and member interleavings; expected tree known by construction; "
                       "plus truncation at every byte of every 4th (thorough: every) text <= 400 B, 4 mutations per text (delete / duplicate / replace / swap / slice copy / slice removal), token soup, and the witnesses of the "
                       "repaired defects; Interface::try_from under catch_unwind; oracle: legal text => exactly the denoted tree; any accepted text => well-formed tree with the same non-comment tokens and all its comments in the text; never a panic; "
                       "non-trivial = accepted or rejected observed; distinct = distinct case lines")


def rt_nontrivial(inp, impl):
    ks = ["rendered"]
    if " P ok " in impl:
        ks.append("parsed-back")
    if " P error" in impl:
        ks.append("rendering-rejected")
    if "{" in inp and __import__("re").search(r"\{[0-9a-f-]", inp):
        ks.append("has-comments")
    return ks


def x_nontrivial(inp, impl):
    ks = ["exchanged"]
    if " X ok " in impl:
        ks.append("parsed-by-client")
    w = impl.split(" X ")[0]
    if "5c" in w or "\\" in w:
        ks.append("escapes-on-the-wire")
    return ks


def run_idlrt(run, cfg, G):
    diff_run(run, G, ["idlrt"], "idlrt", rt_nontrivial, "idlrt", known_key=idl_known_key)
    # the GetInterfaceDescription exchange end to end: service send_reply -> client proxy call -> parse()
    diff_run(run, G, ["idlx"], "idlx", x_nontrivial, "idlx")
    # descriptions produced by the derive macros: the corpus of C16, compiled against /repo's macros; the interface
    # assembled from every module's derived descriptions is rendered, parsed and rendered again (line kind intrort)
    pregen_corpora(run, cfg, G)
    if G["build_harness"](run, "zvc"):
        old = run.binary
        run.binary = "zvc"
        diff_run(run, G, ["intro"], "intrort", intro_nontrivial, "derived-intrort",
                 known_key=lambda line: "commented-enum-variant" if intro_known_key(line) else None)
        run.binary = old
    else:
        run.notes.append("the derive corpus (zvc) does not build: derived descriptions not explored")
    # the explicit inline-enum witness (constructor-built only)
    lines = G["run_scenario"](run, ["idlrt"], extra=["--index", "999999999"]) or []
    wl = [l for l in (G["run_scenario"](run, ["idlrt"]) or []) if l.startswith("idlrt-inline-witness")]
    known = [k for k in G["load_known"]()["findings"] if k["property"] == run.pid]
    for l in wl:
        if l.endswith("=> ok"):
            continue
        hit = next((k for k in known if k["key"] == "inline-enum-variant-comment"), None)
        if hit:
            run.known.append(f"{hit['what']} [key={hit['key']}]")
        else:
            path = run.replay_path("idlrt-inline")
            json.dump({"property": run.pid, "kind": "inline enum with a commented variant does not round-trip", "case_line": l}, open(path, "w"), indent=1)
            run.violations.append(("impl", path, ""))
    def search():
        diff_run(run, G, ["idlrt"], "idlrt", rt_nontrivial, "idlrt-search", tier="thorough", seed_offset=1, record=False, known_key=idl_known_key)
        diff_run(run, G, ["idlx"], "idlx", x_nontrivial, "idlx-search", tier="thorough", seed_offset=1, record=False)
    finish_corr(run, G, [search])
    run.cov["rule"] = ("descriptions built through the public constructors in both forms (new_owned and the borrowed const-style new; their Display output must agree) from the generator of C13 covering every type constructor, "
                       "empty and non-empty member lists and comments at interface / member / field / parameter / variant level; Display text, Interface::try_from of that text and Display of the result are observed; "
                       "the model renders and parses the same tree; oracle: parsed tree = original tree and re-rendering = text; non-trivial = rendered and parsed back; distinct = distinct case lines; "
                       "scenario idlx: the GetInterfaceDescription exchange on real connections (service: send_reply of InterfaceDescription::from(&interface); client: the varlink_service proxy method fed with exactly the written bytes under random read sizes, "
                       "then InterfaceDescription::parse), comments spiced with quotes, backslashes, control characters and non-ASCII text so that the JSON string escaping is exercised; the model predicts the frame byte for byte and the parsed tree")


# ------------------------------------------------------------------------------------ notified (C20)

def notif_nontrivial(inp, impl):
    ks = []
    if ":i" in impl:
        ks.append("items-delivered")
    if "pend" in impl:
        ks.append("pending-poll")
    if inp.count(" n") >= 2:
        ks.append("several-subscribers")
    if " d" in inp:
        ks.append("subscriber-dropped")
    if inp.startswith("once"):
        ks.append("one-shot")
    return ks


def run_notified(run, cfg, G):
    for pre in ("notif", "once"):
        diff_run(run, G, ["notified"], pre, notif_nontrivial, "notified-" + pre)
    def search():
        diff_run(run, G, ["notified"], "notif", notif_nontrivial, "notified-search", tier="thorough", seed_offset=1, record=False)
    finish_corr(run, G, [search])
    run.cov["rule"] = ("the same history run on zlink_tokio::notified::State and zlink_smol::notified::State with manual polling (noop waker): exhaustively every history of length <= 7 (thorough 8) over {set, new subscriber, poll subscriber k} "
                       "with <= 4 (6) sets and <= 2 subscribers that ends in a poll, plus 3000 (60000) random histories of 5..40 operations with <= 3 subscribers and drops; one-shot scripts (notify before/after the first poll, notifier dropped); "
                       "oracle: per subscriber each item is the latest value set since its previous item, marked continuing, pending exactly when nothing new was set, never an end; both runtimes produce the same tokens; "
                       "non-trivial = items delivered / pending polls; distinct = distinct case lines")


# ------------------------------------------------------------------------------------ unix (C19)

def unix_nontrivial(inp, impl):
    ks = []
    if " xfer " in inp:
        ks.append("transfer")
        sizes = [int(x) for x in inp.split(" slow=")[0].replace(" A ", " ").replace(" B ", " ").split()[3:] if x.isdigit()]
        if any(x >= 200000 for x in sizes):
            ks.append("larger-than-socket-buffer")
        if " B " in inp and inp.split(" B ")[1].split(" slow=")[0].strip():
            ks.append("both-directions")
        if "slow=1" in inp or "slow=2" in inp:
            ks.append("slow-reader")
    if " listen " in inp:
        ks.append("listener")
        if " fd " in inp:
            ks.append("inherited-fd")
    if " cancel " in inp:
        ks.append("cancelled-send")
    if " ids " in inp:
        ks.append("connections-created-concurrently-by-8-threads")
    return ks


def unix_known_key(line):
    if line.startswith("unix cancel"):
        return "cancelled-partial-send"
    return None


def run_unix(run, cfg, G):
    diff_run(run, G, ["unix"], "unix", unix_nontrivial, "unix", known_key=unix_known_key)
    finish_corr(run, G, [])
    run.cov["rule"] = ("real Unix-domain sockets, both runtime crates (production build, no cfg hook): connected zlink connections exchanging 1..10 messages per direction with sizes 1 B..1 MiB (incl. > 200 KiB, i.e. larger than the kernel socket buffer, "
                       "forcing partial writes), both directions at once, reader slower or faster than the writer; bound listeners and listeners built from an inherited descriptor accepting 1, 3, 8 connections with ids collected; "
                       "a send cancelled by a timeout while the peer is not reading followed by a small message (peer's raw frames classified); oracle: received = sent, ids distinct, all served, only whole sent frames each at most once; "
                       "non-trivial = any transfer / listener / cancellation case; distinct = distinct case lines")


# ------------------------------------------------------------------------------------ alias (C11)

def alias_nontrivial(inp, impl):
    ks = []
    if "diff" in impl:
        ks.append("held-item-changed")
    if "same" in impl:
        ks.append("held-item-intact")
    g = inp.split(" G ")[1].split(" C ")[0].split()
    c = inp.split(" C ")[1].split(" O ")[0].split()
    if g == ["-"]:
        ks.append("read-boundary-inside-a-reply")
        if len(c) > 2:
            ks.append("several-read-boundaries-inside-replies")
    else:
        if len(g) > 1:
            ks.append("replies-in-separate-reads")
        if any(int(x) > 1 for x in g):
            ks.append("several-replies-in-one-read")
    if " X -" not in inp and " X " in inp:
        ks.append("stream-ended-by-general-error")
    return ks


def alias_known_key(line, model_line):
    """the listed finding is the behaviour the model of the pinned code predicts (an item overwritten in place by a
    later read): a failing case the model does not predict is something else"""
    if line.startswith("alias "):
        model, h, _ = parse_model(model_line)
        if " ".join((model or "").split()) == " ".join(split_case(line)[1].split()):
            return "held-item-overwritten"
    return None


alias_known_key.wants_model = True


def run_alias(run, cfg, G):
    diff_run(run, G, ["alias"], "alias", alias_nontrivial, "alias", known_key=alias_known_key)
    def search():
        diff_run(run, G, ["alias"], "alias", alias_nontrivial, "alias-search", tier="thorough", seed_offset=1, record=False, known_key=alias_known_key)
    finish_corr(run, G, [search])
    run.cov["rule"] = ("chains of 2..6 calls whose replies carry a borrowed &str (Reply<P<'a>>) of varying length, delivered in every grouping pattern drawn at random (all in one read ... one read each) and, every third case, with read boundaries drawn over the bytes (a read ending inside a reply, next to a reply boundary or anywhere, behind complete replies of the same read); every item yielded by the chain's reply stream is HELD while "
                       "the later ones are obtained, then compared with the copy taken when it was yielded; total size below the first growth step (no reallocation is provoked: reading through a dangling reference would be UB) except for all-buffered batches "
                       "with one reply of 0.3..12 KiB (growth happens before the first item is yielded); every sixth case one reply after the first is a general error (service error / undecodable frame) that ends the stream while earlier items are held; "
                       "the model predicts exactly which held items are overwritten; non-trivial = at least one held item intact or changed; distinct = distinct case lines")


# ------------------------------------------------------------------------------------ corpora (C12, C15, C16)

CORPUS = os.path.join(VERIF, "corpus")
ZVC_SRC = os.path.join(VERIF, "harness", "zvc", "src")


def corpus_sizes(run):
    import corpora
    return corpora.sizes(run.tier)


_corpora = {}


def pregen_corpora(run, cfg, G):
    """(Re)generates every generated source of the corpus crate from the seed, runs stage A, and builds the
    crate with generated modules that do not compile isolated (they are failing inputs of C15 / C16)."""
    import corpora
    key = (run.seed, run.tier)
    if key not in _corpora:
        _corpora[key] = corpora.generate(run.seed, run.tier)
    run.corpora = _corpora[key]
    if not run.corpora["ok"]:
        run.notes += run.corpora["notes"]


def proxy_nontrivial(inp, impl):
    ks = []
    if inp.startswith("proxy "):
        ks.append("wire-" + inp.split(" FORM ")[1].split()[0])
        if " FORM ext at" in inp:
            ks.append("ext-call-ending-at-a-growth-step-of-the-write-buffer")
        if ":opt" in inp:
            ks.append("optional-parameter")
        if " N -" not in inp:
            ks.append("renamed-method")
        if " F more" in inp or " F oneway" in inp:
            ks.append("flagged-method")
        p = inp.split(" P ")[1].split(" A ")[0]
        if any(len(x.split(":")) == 3 and x.split(":")[1] != "-" for x in p.split(",")):
            ks.append("renamed-parameter")
    if inp.startswith("proxyreply"):
        ks.append("reply-" + impl.split(":")[0])
    if inp.startswith("proxystream"):
        ks.append("stream")
    return ks


def run_proxy(run, cfg, G):
    for pre in ("proxy", "proxyreply", "proxystream"):
        diff_run(run, G, ["proxy"], pre, proxy_nontrivial, "proxy-" + pre)
    # traits for which the macro's expansion does not compile (the trait itself is acceptable: primitive / std types,
    # legal identifiers): "for every trait the macro accepts" fails on such a trait
    failed = sorted(getattr(run, "corpora", {}).get("px_failed", {}).items())
    if failed:
        idx, b = failed[0]
        path = run.replay_path(f"proxy-expansion-does-not-compile-{idx}")
        json.dump({"property": run.pid, "kind": "the proxy macro's expansion does not compile for this trait (declarations in the line protocol's notation; the Rust source is module t%d of harness/zvc/src/gen_proxy.rs after `python3 /verif/bin/corpora.py %d %s`)" % (idx, run.seed, run.tier),
                   "declaration": b["decl"], "rustc": b["error"], "at": b["at"], "traits_failing": [i for i, _ in failed]}, open(path, "w"), indent=1)
        run.violations.append(("impl", path, ""))
    run.cov["compile_failures"] = len(failed)
    finish_corr(run, G, [])
    run.cov["programs"] = corpus_sizes(run)["proxy"]
    run.cov["rule"] = ("a corpus of %d proxy traits generated from the seed (methods of 1..4 words/digits, renamed or not; 0..4 parameters of u32 / i64 / bool / &str / String / Option / slice / struct / generic types with optional wire renames; elided and explicit lifetimes; more / oneway), "
                       "compiled against /repo's macros on every run; every method is called in its plain, chain_ and chain-extension forms with random literal arguments on a capturing connection and the frames compared with the model and with the frame the property demands; "
                       "plain methods are also fed 10 reply frames (success with/without parameters, declared / malformed / undeclared / standard errors, garbage) and streaming methods a 3-reply script; non-trivial = by form / feature; distinct = distinct case lines" % corpus_sizes(run)["proxy"])


def cg_nontrivial(inp, impl):
    k = inp.split()[0]
    ks = [k]
    if k == "cgdecl":
        if "r#" in impl:
            ks.append("decl-raw-identifier")
        if "_ " in impl:
            ks.append("decl-underscored-keyword")
    if k == "case":
        return ["heck"]
    return ks


def cg_known_key(line):
    if line.startswith("cgreply ") and " R 1 V {} " in line:
        return "unit-output-empty-parameters"
    return None


def run_cg(run, cfg, G):
    co = getattr(run, "corpora", {"cg_failed": {}})
    for pre in ("cgdecl", "case", "cgcall", "cgreply", "cgerr", "cgtype", "cgenc"):
        diff_run(run, G, ["cg"], pre, cg_nontrivial, "cg-" + pre, known_key=cg_known_key)
    # generated modules that do not compile
    gen_failed = [i for i, b in sorted(co.get("cg_failed", {}).items()) if b["where"] == "generated"]
    for idx, b in sorted(co.get("cg_failed", {}).items()):
        if b["where"] == "generated" and idx != gen_failed[0]:
            continue
        if b["where"] == "generated":
            path = run.replay_path(f"cg-does-not-compile-{idx}")
            json.dump({"property": run.pid, "kind": "the code generated for this interface description does not compile",
                       "idl": b["idl"], "rustc": b["error"], "at": b["at"], "modules_failing_total": len(gen_failed), "modules_failing": gen_failed,
                       "replay": "python3 /verif/bin/corpora.py %d %s  # then see harness/zvc/src/gencg/m%d.rs" % (run.seed, run.tier, idx)}, open(path, "w"), indent=1)
            run.violations.append(("impl", path, ""))
        else:
            path = run.replay_path(f"cg-exercise-does-not-fit-{idx}")
            json.dump({"property": run.pid, "kind": "correspondence broken: the exercise code written from the IDL tree no longer compiles against the generated module (its Rust spellings or types changed)",
                       "idl": b["idl"], "rustc": b["error"], "at": b["at"]}, open(path, "w"), indent=1)
            run.pending_corr = getattr(run, "pending_corr", []) + [(f"cg-exercise-{idx}", path)]
    finish_corr(run, G, [])
    n = corpus_sizes(run)["cg"]
    run.cov["programs"] = n
    run.cov["compile_failures"] = len(co.get("cg_failed", {}))
    run.cov["rule"] = ("a corpus of %d interface descriptions generated from the seed (0..3 non-recursive custom types, 1..4 methods, 0..3 errors in any order; nested ?/[]/[string]/inline struct/inline enum/foreign object types; names with acronyms, digits, camelCase, snake_case, upper-case initials and Rust keywords incl. self/Self/super/crate/try/yield; last interface segments such as 9p, self, foo-bar), "
                       "each run through zlink_codegen::generate_interface of the working tree, the output compiled (modules that fail are isolated and reported), its declarations read back with syn and compared with the model's; "
                       "every method called twice with random values of the declared types on a capturing connection (frame compared), fed a success reply (decoded value serialised again and compared) and - first method - every declared error; every custom type decoded from / encoded to the IDL's spelling; "
                       "heck itself compared with the model's port on every name of length <= 5 over {a,B,2,_} and the corpus' name pools; non-trivial = by line kind; distinct = distinct case lines" % n)


def intro_decl_has_documented_variant(line):
    """does the module of this case line declare an enum (custom or inline) with a documented variant?"""
    t = line.split(" => ")[0].split()
    t = t[3:] if t[0] in ("intro", "intrort") else t[1:]
    try:
        n = int(t[0]); i = 1
        for _ in range(n):
            k = t[i]
            if k in ("ts", "cs"):
                i += 4 + 3 * int(t[i + 3])
            elif k in ("te", "ce"):
                nv = int(t[i + 3])
                if any(t[i + 4 + 2 * j + 1] != "-" for j in range(nv)):
                    return True
                i += 4 + 2 * nv
            else:
                nv = int(t[i + 2]); i += 3
                for _ in range(nv):
                    sh = t[i + 2]; i += 3
                    if sh == "n":
                        i += 1 + 3 * int(t[i])
                    elif sh == "t":
                        i += 1
    except (ValueError, IndexError):
        return False
    return False


def intro_known_key(line):
    if line.startswith("intrort ") and intro_decl_has_documented_variant(line):
        return "documented-enum-variant"
    return None


def intro_nontrivial(inp, impl):
    k = inp.split()[0]
    ks = [k]
    if "(" in inp:
        ks.append("constructor-type")
    if "@" in inp:
        ks.append("reference-to-earlier-type")
    if " er " in inp:
        ks.append("error-enum")
    if "&str" in inp or "&[]" in inp:
        ks.append("lifetime")
    return ks


def run_intro(run, cfg, G):
    for pre in ("introty", "intro", "intrort"):
        diff_run(run, G, ["intro"], pre, intro_nontrivial, "intro-" + pre, known_key=intro_known_key)
    # modules on which a derive does not compile
    failed = sorted(getattr(run, "corpora", {}).get("in_failed", {}).items())
    if failed:
        idx, b = failed[0]
        path = run.replay_path(f"intro-derive-does-not-compile-{idx}")
        json.dump({"property": run.pid, "kind": "a derive does not compile for a declaration of this module (declaration in the line protocol's notation; the Rust source is module i%d of harness/zvc/src/gen_intro.rs after `python3 /verif/bin/corpora.py %d %s`)" % (idx, run.seed, run.tier),
                   "declaration": b["decl"], "rustc": b["error"], "at": b["at"], "modules_failing": [i for i, _ in failed]}, open(path, "w"), indent=1)
        run.violations.append(("impl", path, ""))
    run.cov["compile_failures"] = len(failed)
    finish_corr(run, G, [])
    n = corpus_sizes(run)["intro"]
    run.cov["programs"] = n
    run.cov["rule"] = ("a corpus of %d modules generated from the seed, each declaring 2..5 Rust types: structs and unit-variant enums with #[derive(Type)] or #[derive(CustomType)], error enums with the introspection #[derive(ReplyError)] (unit, struct and single-tuple variants), "
                       "0..6 fields drawn from every std type the Type trait is implemented for (10 integer types, floats, strings, char, unit, serde_json::Value, time / path / OS-string / network types), every wrapper and collection constructor (nested up to depth 3), earlier types of the module, with and without lifetimes, "
                       "doc comments (with leading / trailing / inner blanks, non-ASCII) on types, fields and variants; compiled against /repo's macros on every run; observed: <T as Type>::TYPE of every type, the interface assembled from all CUSTOM_TYPEs and VARIANTS, its Display text and what that text parses back to; "
                       "non-trivial = by line kind and features; distinct = distinct case lines" % n)


RX_ASSUME = [
    "which bytes are a JSON document of the requested shape is serde_json/serde's business: the model takes `decode this frame` as an opaque per-frame function (theorems hold for every such function); the harness instantiates it with the verdict of a fresh connection receiving that frame alone and cross-checks call receivers against serde_json::from_slice",
    "the ReadHalf contract: a read future that is dropped while pending has consumed nothing",
    "frames are non-empty and contain no NUL; what is bounded by MAX_BUFFER_SIZE is each burst between two moments at which everything that arrived has been handed out, not the stream (C01_any_length / C17_rx_threshold_any_history: any number of such bursts, any total); "
    "a burst that is itself as long as the limit without being consumed in between is oversize traffic (C17)",
]

TX_ASSUME = [
    "the serializer's result for one message (its bytes, or the bytes before a refusal) is an input of the send-path model; that those bytes are serde_json's compact encoding is C03",
    "WriteHalf::write either accepts the whole slice or fails (partial writes are the transport's business, see C19)",
]

PROPS = {
    "C02": {
        "property_modules": ["Zlink.Properties.C02"],
        "lean_modules": ["Zlink.Properties.C02"],
        "theorems": ["C02.C02_history", "C02.C02_stream", "C02.C02_free_space_irrelevant", "C02.C02_refused_no_effect",
                     "C02.C02_empty_flush", "C02.C02_oracle", "C02.consts_ok"],
        "run": run_tx, "trusted_base": TB_COMMON, "assumptions": TX_ASSUME,
    },
    "C03": {
        "property_modules": ["Zlink.Properties.C03"],
        "lean_modules": ["Zlink.Properties.C03"],
        "theorems": ["C03.C03_cap_independent", "C03.C03_model_eq_reference", "C03.C03_escape_table", "C03.C03_no_raw_control",
                     "C03.C03_no_nul", "C03.C03_valid_utf8", "C03.C03_frames_valid_utf8", "C03.C03_keys"],
        "run": run_ser, "search": search_ser, "trusted_base": TB_COMMON,
        "assumptions": [
            "serde_json::to_vec is the reference for `compact JSON`; the Lean reference printer `Ser.render` is validated against it on every explored value (three-way comparison), not proved equal to it",
            "digit strings of itoa (integers) and ryu (floats) are carried as opaque texts (recorded from Rust's own Display for integers, from serde_json for floats) and assumed printable",
            "Serialize implementations announce honest length hints (a sequence that announces Some(0) and then emits elements is malformed in serde_json and zlink alike); WF is an explicit decidable predicate",
            "valid UTF-8 of the output: proved (C03_valid_utf8, C03_frames_valid_utf8) for values whose strings are well-formed UTF-8 and whose number texts are ASCII, and checked on every explored value by the oracle (Utf8.valid)",
        ],
    },
    "C08": {
        "property_modules": ["Zlink.Properties.C08"], "lean_modules": ["Zlink.Properties.C08"],
        "theorems": ["C08.C08_refinement", "C08.C08_quiescent", "C08.C08_model_satisfies_oracle", "C08.C08_no_lost_wakeup", "C08.C08_wake_driven", "C08.C08_parked_all_answered", "C08.C08_poll_splits", "C08.C08_parked_server_polled_everybody", "C08.C08_oneway_silent", "C08.C08_one_reply", "C08.C08_in_order"],
        "run": run_srv_scenarios(["srv"]), "trusted_base": TB_COMMON, "assumptions": SRV_ASSUME,
    },
    "C09": {
        "property_modules": ["Zlink.Properties.C09"], "lean_modules": ["Zlink.Properties.C09"],
        "theorems": ["C09.C09_noninterference", "C09.C09_same_replies_whoever_else_is_there", "C09.C09_faults_unconstrained", "C09.C09_bad_connect_unconstrained",
                     "C09.C09_write_failure_local", "C09.C09_server_alive"],
        "run": run_srv_scenarios(["srv-faults"]), "trusted_base": TB_COMMON, "assumptions": SRV_ASSUME,
    },
    "C10": {
        "property_modules": ["Zlink.Properties.C10"], "lean_modules": ["Zlink.Properties.C10"],
        "theorems": ["C10.C10_stream_order", "C10.C10_items", "C10.C10_resume", "C10.C10_others_served", "C10.C10_ready_call_goes_first", "C10.C10_mid_poll_arrivals_are_events",
                     "C10.C10_open_stream_blocks_nobody", "C10.C10_results_accounted", "C10.C10_pending_stream_untouched", "C10.C10_stream_rotation",
                     "C10.C10_unwritable_drops_only_subscription"],
        "run": run_srv_scenarios(["srv-stream"]), "trusted_base": TB_COMMON,
        "assumptions": SRV_ASSUME + ["the service's stream is polled through StreamExt::next, which keeps no state of its own between polls (a dropped next() future loses nothing): assumed of futures_util, observed by the gated cases"],
    },
    "C18": {
        "property_modules": ["Zlink.Properties.C18"], "lean_modules": ["Zlink.Properties.C18"],
        "theorems": ["C18.C18_pending_polled_everybody", "C18.C18_select_min", "C18.C18_scan_is_select", "C18.C18_server_rotation", "C18.C18_no_double_service", "C18.C18_phase_bound", "C18.C18_bounded_bypass",
                     "C18.C18_run_is_winners", "C18.C18_server_no_double_service", "C18.C18_server_phase_bound", "C18.C18_positions_are_connections", "C18.C18_waiting_call_not_overtaken"],
        "run": run_srv_scenarios(["srv-fair"]), "trusted_base": TB_COMMON,
        "assumptions": SRV_ASSUME + [
            "the no-double-service and phase-bound theorems are proved both over abstract sequences of consecutive scans (Sel.winners) and over whole stretches of the server loop (C18_server_no_double_service / C18_server_phase_bound via C18_run_is_winners: the successive lastCall values of consecutive iterations over a connection list of unchanged length are the winners sequence; C18_positions_are_connections: then the same clients sit at the same positions); the second sentence (across closures and stream transitions) is the sum over phases (C18_bounded_bypass), its phases being such stretches",
        ],
    },
    "C11": {
        "property_modules": ["Zlink.Properties.C11"], "lean_modules": ["Zlink.Properties.C11"],
        "theorems": ["C11.C11_counterexample", "C11.C11_full_statement_false", "C11.C11_partial_all_buffered"],
        "run": run_alias, "trusted_base": TB_COMMON,
        "assumptions": [
            "PARTIAL by necessity: the full statement is false of the code (proved: C11_full_statement_false); what is proved is the counterexample and the sub-case that holds (no transport read between yield and use => nothing is touched)",
            "real undefined behaviour (a read through a reference that dangles after Vec growth) cannot be exhibited by a model; the model tracks reallocation as a generation counter, the run observes overwritten bytes only in the no-growth regime",
            "that receive_reply(&'r mut self) alone is safe is the borrow checker's guarantee (the unchecked lifetime extension in reply_stream.rs is what removes it); not a theorem here",
        ],
    },
    "C12": {
        "property_modules": ["Zlink.Properties.C12"], "lean_modules": ["Zlink.Properties.C12"],
        "theorems": ["C12.C12_plain", "C12.C12_params", "C12.C12_forms_agree", "C12.C12_reply_mapping", "C12.C12_error_never_ok"],
        "run": run_proxy, "pregen": pregen_corpora, "package": "zvc", "trusted_base": TB_COMMON,
        "assumptions": [
            "`for every trait the macro accepts` is approached by the corpus grammar (60 / 600 generated traits compiled per run), not proved about syn token streams; the theorems quantify over the declaration data type the generator spans",
            "trait shapes the macro itself rejects at compile time (e.g. a generic method whose reference parameters have elided lifetimes: `'__proxy_params` is undeclared) are outside the property's domain and avoided by the generator",
            "serde-derived serialisation of the generated parameter structs is as modelled (field order = declaration order, None skipped when annotated)",
        ],
    },
    "C15": {
        "property_modules": ["Zlink.Properties.C15"], "lean_modules": ["Zlink.Properties.C15"],
        "theorems": ["C15.C15_method_names", "C15.C15_param_names", "C15.C15_call_params", "C15.C15_field_names", "C15.C15_output_names",
                     "C15.C15_variant_spelling", "C15.C15_error_names", "C15.C15_keywords", "C15.C15_not_raw_table", "C15.C15_keyword_table",
                     "C15.C15_type_table", "C15.C15_output_lifetime", "C15.C15_prim_rows", "C15.C15_rename_needed"],
        "run": run_cg, "pregen": pregen_corpora, "package": "zvc", "trusted_base": TB_COMMON,
        "assumptions": [
            "`the generated Rust code compiles` is a fact about rustc: established for the corpus only (25 / 300 interfaces per run), never by a theorem; C15_output_lifetime and C15_keywords prove the two model-level conditions whose violation made modules fail to compile on the pinned tree",
            "what the generated declarations mean on the wire is taken from the proxy-macro model (C12), serde's derive semantics (field key = rename or unraw identifier; unit variant = rename or identifier) and the ReplyError derive (error name = interface.rename-or-identifier): these are modelled, and observed only through the compiled corpus",
            "inline structs and inline enums are held as serde_json::Value / String by the generated code: their values are not constrained or re-spelled by it (C15_type_table states the widening)",
            "collision-free names: the corpus rejects interfaces whose converted Rust names collide, member names reused across kinds, and custom types named like prelude items",
            "value-level round trips (cgreply / cgtype / cgenc / cgerr) are decided by the oracle on the corpus; the theorems cover names, keys, the parameter object, type shapes, keywords and lifetimes for every interface tree",
        ],
    },
    "C16": {
        "property_modules": ["Zlink.Properties.C16"], "lean_modules": ["Zlink.Properties.C16"],
        "theorems": ["C16.C16_atoms", "C16.C16_ctors", "C16.C16_tables_nodup", "C16.C16_type_mapping", "C16.C16_fields_exact",
                     "C16.C16_field_names", "C16.C16_custom_struct", "C16.C16_enum_variants", "C16.C16_assembled_roundtrip"],
        "run": run_intro, "pregen": pregen_corpora, "package": "zvc", "trusted_base": TB_COMMON,
        "assumptions": [
            "rustc's trait resolution picks the impl the model looks up by the type's text (constructor name + fixed arguments); observed on the compiled corpus only",
            "`renders to text that parses back to an equal description` is a theorem (C16_assembled_roundtrip = what the derives assemble is well-formed + the round-trip theorem of C14) for every module with legal Varlink names, outside two classes stated as decidable conditions: documented enum variants (the listed D9 finding) and Option directly around Option, also through transparent wrappers (`??T` is not Varlink; the corpus avoids it); on the compiled corpus the Lean oracle additionally checks the implementation's own text and parse result",
            "doc comments: `/// text` lines only (block doc comments span lines and cannot be one IDL comment); the comment is the line without surrounding blanks",
            "field, variant and type names of the corpus are legal Varlink names (a Rust name such as `_x` or `a__b` has no Varlink spelling; raw identifiers make the derive panic at compile time): outside the property's corpus",
            "external-crate impls (uuid, url, bytes, indexmap, chrono, time) are feature-gated and not compiled here",
        ],
    },
    "C13": {
        "property_modules": ["Zlink.Properties.C13"], "lean_modules": ["Zlink.Properties.C13"],
        "theorems": ["C13.C13_total", "C13.C13_type_names_exact", "C13.C13_field_names_exact", "C13.C13_interface_names_complete",
                     "C13.C13_types_complete", "C13.C13_complete", "C13.C13_types_layout", "C13.C13_layout",
                     "C13.C13_interface_names_sound", "C13.C13_sound_tree", "C13.C13_sound_text",
                     "C13.C13_type_members_homogeneous", "C13.C13_grammars_consistent", "C13.C13_literals", "C13.C13_no_empty_enum"],
        "run": run_idl, "trusted_base": TB_COMMON,
        "assumptions": [
            "winnow's alt / separated / literal / take_while / multispace0 and str::trim behave as ported in Zlink/Model/Idl.lean (validated by the correspondence run: identical trees / rejections on every explored text)",
            "proved (unbounded): totality; exactness (soundness + longest-match completeness) of the type-name and field-name lexers; completeness of the interface-name lexer; C13_complete: every well-formed description "
            "(any nesting of ?, [], [string], inline structs and enums, any number of members / fields / variants, comments in every slot the description has) is recovered exactly, members in order, from its canonical text",
            "C13_layout (unbounded): the grammar as an inductive relation IfaceCoreL between descriptions and texts - gaps of space/tab/CR/LF wherever the scenario's layout generator puts them (inside parentheses, around `:` `,` `->`, after keywords, between members, around the text), "
            "comment lines with arbitrary blanks in every slot, members of the three kinds in any interleaving - and the theorem that every such text parses to exactly the description; not covered by the relation: layout comments in places where the description has no slot, form feed / Unicode white space",
            "C13_sound_tree (every input text): an accepted text yields a description made of grammatical names and parser-shaped comments only (all three lexers sound; induction over the parser's fuel through all nine mutually recursive type parsers and the member loops)",
            "C13_sound_text (every input text): an accepted text is, after trimming, a text of the inductive grammar IfaceS denoting exactly the returned description - every byte is a token of it, an attached comment or layout (nothing ignored); side condition: no variant-less inline enum in the result (needs a fuel argument; checked by the oracle per accepted text)",
            "the two grammar relations (IfaceCoreL for completeness, IfaceS for soundness) are not proved equal: IfaceS additionally allows layout comments in gaps, form feed after keywords, no white space between members, and a last comment without line end; the scenario's oracle `nothingIgnored` stays in place per explored text",
            "C13_complete carries the side condition noVCI (no inline enum with commented variants): such trees exist only through the constructors, the parser has no slot for these comments; without the condition the statement is false (C13_complete_statement, kept visible)",
            "leniencies deliberately not counted as violations: members without a line break between them; comments at places where the description has no slot (layout, as in the grammar's `_` production)",
        ],
    },
    "C14": {
        "property_modules": ["Zlink.Properties.C14"], "lean_modules": ["Zlink.Properties.C14"],
        "theorems": ["C14.C14_comment_roundtrip", "C14.C14_parse_render", "C14.C14_render_fixpoint", "C14.C14_exchange", "C14.C14_parsed_roundtrip", "C14.renderIface_eq_refText",
                     "C14.C14_commented_variant_counterexample"],
        "run": run_idlrt, "trusted_base": TB_COMMON,
        "assumptions": [
            "core::fmt (write!/writeln!) concatenates as modelled in Zlink/Model/IdlRender.lean (validated: byte-identical text on every explored tree)",
            "proved (unbounded): parse(render a) = a and render(parse(render a)) = render a for every well-formed description without commented enum variants (C14_parse_render, C14_render_fixpoint); the excluded class is exactly the listed finding "
            "(C14_commented_variant_counterexample proves the model refuses that rendering too); C14_statement is kept as the statement",
            "C14_exchange (GetInterfaceDescription end to end): the JSON string reader is a Lean model of the part of serde_json's string parser that zlink's escaping exercises (Zlink/Model/JsonStr.lean); serde_json itself, the reply envelope and the proxy call are "
            "exercised by scenario idlx on real connections (frame predicted byte for byte, parsed tree = described tree)",
        ],
    },
    "C19": {
        "property_modules": ["Zlink.Properties.C19"], "lean_modules": ["Zlink.Properties.C19"],
        "theorems": ["C19.writeAll_flatten", "C19.C19_e2e", "C19.C19_ids_distinct", "C19.C19_cancel_counterexample", "C19.C19_cancel_partial", "C19.C19_no_suspension_after_last_byte", "C19.C19_cancel_cut_is_proper"],
        "run": run_unix, "package": "zvrt", "trusted_base": TB_COMMON,
        "assumptions": [
            "PARTIAL: the kernel's Unix socket is modelled as a byte FIFO accepting any non-empty prefix of a write; kernel buffer sizes, descriptor inheritance and the tokio / smol schedulers are runtime facts exercised by the correspondence run on real sockets only",
            "the model side of the `unix` scenario is the closed form of C19_e2e (received = sent; expected hashes are a function of size and index computed without looking at the transfer), not an execution of the byte-level model on megabyte messages",
            "timing: the cancellation case uses a 30 ms timeout with a peer that does not read; a 1 MiB / 400 kB message cannot be written completely into a socket buffer, so the send is always pending when abandoned",
        ],
    },
    "C20": {
        "property_modules": ["Zlink.Properties.C20"], "lean_modules": ["Zlink.Properties.C20"],
        "theorems": ["C20.C20_runtimes_agree", "C20.C20_poll", "C20.C20_never_ends", "C20.C20_converges", "C20.C20_cursor_monotone",
                     "C20.C20_subscribe_sees_later_only", "C20.C20_after_close", "C20.C20_order", "C20.C20_once"],
        "run": run_notified, "package": "zvrt", "trusted_base": TB_COMMON,
        "assumptions": [
            "tokio::sync::broadcast + tokio_stream::BroadcastStream and async-broadcast (overflow mode), both with capacity 1, and the one-shot channels are MODELLED (counter + retained value + cursor), validated by running both real crates on every explored history; only the adapters on top are zlink's",
            "polling is manual, each subscriber with its own recording waker: a subscriber whose last poll was pending must have been woken by the next set, and by the drop of the last state handle",
            "the end of the state is part of the model (Op.close, pollClosed) and of the histories (one random history in three, and every short prefix): a value set before the last handle went away is delivered, then the stream ends, in both runtimes (C20_after_close)",
        ],
    },
    "C17": {
        "property_modules": ["Zlink.Properties.C17"],
        "lean_modules": ["Zlink.Properties.C17"],
        "theorems": ["C17.C17_rx_cap_bounded", "C17.C17_rx_accept", "C17.C17_rx_overflow", "C17.C17_rx_threshold", "C17.C17_rx_threshold_any_history", "C17.C17_rx_overflow_interleaved", "C17.C17_rx_threshold_prod",
                     "C17.C17_tx_threshold", "C17.C17_tx_cap_bounded", "C17.consts_ok"],
        "run": run_bounds, "trusted_base": TB_COMMON,
        "assumptions": RX_ASSUME[:2] + TX_ASSUME + [
            "boundary sweeps run with the hook-lowered limit (--cfg zlink_verif: 64 KiB); the theorems are parametric in the limit and `consts_ok` checks that both the production and the hook value extracted from the source are positive multiples of the growth step; "
            "the production build (harness-rt, no cfg) is run on 5 (thorough 10) frames around the extracted production limit (10 MiB, limit-1, limit, limit+1, unterminated limit+1 MiB) and compared with the closed form of C17_rx_threshold_prod",
            "the inbound overflow theorem covers input that has fully arrived (any read sizes); overflow under interleaved arrivals is covered by the correspondence run and the executable oracle only",
        ],
    },
    "C01": {
        "property_modules": ["Zlink.Properties.C01"],
        "lean_modules": ["Zlink.Properties.C01"],
        "theorems": ["C01.C01_framing", "C01.C01_poll", "C01.C01_errors_local", "C01.C01_oracle", "C01.C01_any_length", "C01.C01_phases_are_one_run"],
        "run": run_rx, "search": search_rx,
        "trusted_base": TB_COMMON, "assumptions": RX_ASSUME,
    },
    "C04": {
        "property_modules": ["Zlink.Properties.C04"], "lean_modules": ["Zlink.Properties.C04"],
        "theorems": ["C04.C04_error_never_success", "C04.C04_success_iff", "C04.C04_service_error_iff", "C04.C04_method_error_iff",
                     "C04.C04_reported_error_is_named", "C04.C04_no_error_member_no_error"],
        "run": run_reply, "trusted_base": TB_COMMON,
        "assumptions": [
            "serde / serde_derive / serde_json decoding semantics are MODELLED for the shape family of Zlink/Model/Envelope.lean (untagged choice in declaration order, adjacently tagged enums, Option, unit, Value, duplicate/unknown members, positional sequences, borrowed strings) and validated by the correspondence corpus (30 receivers), not verified",
            "frames are JSON objects (a non-object document has no `error` member; such frames go through the rx scenario); numbers are carried as integers or opaque text",
        ],
    },
    "C05": {
        "property_modules": ["Zlink.Properties.C05"], "lean_modules": ["Zlink.Properties.C05"],
        "theorems": ["C05.C05_flag_names", "C05.C05_flags_only_when_set", "C05.C05_flags_hidden", "C05.C05_call_roundtrip", "C05.C05_error_encoding",
                     "C05.C05_error_roundtrip", "C05.C05_error_member_order", "C05.C05_reply_encoding", "C05.C05_no_parameters_spellings", "C05.C05_wellformed_call_accepted", "C05.C05_open_method_sees_everything_else"],
        "run": run_envelope, "trusted_base": TB_COMMON,
        "assumptions": [
            "serde / serde_derive semantics modelled for the shape family (see C04); field values are strings without escapes, integers, booleans, options, arbitrary JSON",
            "member-order independence is proved for tag/content and checked exhaustively over all permutations of <= 5 members by the correspondence run (a general permutation theorem is not stated)",
            "the unit-output proxy clause is judged on receive_reply::<(), E> (what the proxy macro instantiates); see the known finding",
        ],
    },
    "C06": {
        "property_modules": ["Zlink.Properties.C06"],
        "lean_modules": ["Zlink.Properties.C06"],
        "theorems": ["C06.C06_owed", "C06.C06_all_oneway", "C06.C06_stops_on_transport_error", "C06.C06_one_write", "C06.C06_oracle", "C06.C06_complete", "C06.C06_parked_stream_poll_is_noop"],
        "run": run_chain, "trusted_base": TB_COMMON,
        "assumptions": RX_ASSUME[1:] + [
            "what receive_reply makes of a frame (continuing reply / final reply / method error / general error) is a parameter `kind` of the stream model; the harness derives it from the frame's JSON and the reference receive",
            "conforming server scripts only: a reply that names an org.varlink.service error, or an undecodable reply, ends the stream by design (`Err(_)` arm) and is outside the property's quantifier",
        ],
    },
    "C07": {
        "property_modules": ["Zlink.Properties.C07"],
        "lean_modules": ["Zlink.Properties.C07"],
        "theorems": ["C07.C07_safe", "C07.C07_complete", "C07.C07_oracle", "C07.C07_state_only_in_connection", "C07.C07_parked_poll_is_noop", "C07.C07_wake_driven"],
        "run": run_c07, "search": search_rx,
        "trusted_base": TB_COMMON, "assumptions": RX_ASSUME + [
            "the property's second anchor - Server::run re-creates (abandons) every connection's receive future whenever its select completes - is exercised by also running the `srv` scenario under this check: a call that the server loses between two iterations of its loop is a lost message in the sense of C07",
        ],
    },
}


def replay(run, cfg, path, G):
    """Re-runs the recorded case (same scenario, tier, seed, index) on the current tree."""
    r = json.load(open(path))
    if "scenario" not in r:
        print(json.dumps(r, indent=1)); return
    G["build_harness"](run, cfg.get("package", "zv"))
    G["lake_build"](run, ["zmodel"])
    run.tier = r.get("tier", "quick")
    run.seed = r.get("seed", 1)
    lines = G["run_scenario"](run, r["scenario"], extra=["--index", str(r.get("index", 0))])
    cases = [l for l in (lines or []) if " =>" in l]
    mouts = G["run_model"](cases) or []
    for l, m in zip(cases, mouts):
        print("case :", l)
        print("model:", m)
        inp, impl = split_case(l)
        model, h, _ = parse_model(m)
        print("verdict:", "property FAILS on the implementation" if h == "0" else ("model != implementation" if model != impl else "ok"))
