"""Human-written texts of MANIFEST.json (kept apart from the machinery)."""
HOOK_COMMITS = ["ea2e14f"]
NOTES = ("All checks: Lean 4 proof about a model + checked tie to /repo (translator for constants, correspondence harness for control flow). "
         "See DESIGN.md. Genuine defects repaired in /repo: see known_findings.json (`fixed`).")
NOT_YET = {}
RX_NOTE = ("Trusted: Lean kernel; the hand-written model Zlink/Model/Rx.lean is tied to read_connection.rs by the correspondence scenario `rx` "
           "(same event lists run on the real Connection with a scripted transport and on the model; outputs must be token-identical) and by the extracted "
           "constants; frame decoding (serde_json/serde) is an opaque per-frame function in the model; ReadHalf::read is assumed cancel-safe as its contract says.")
TX_NOTE = ("Trusted: Lean kernel; Zlink/Model/Tx.lean is tied to write_connection.rs by the correspondence scenarios `tx`/`tx-bounds` (operation histories run on the real "
           "Connection with a capturing transport and on the model: per-operation results and write boundaries must be identical) and by the extracted constants "
           "BUFFER_SIZE / MAX_BUFFER_SIZE; the serializer's output per message is an input here (C03 covers it).")
TEXT = {
    "C02": {
        "level": "Machine-checked refinement theorem (every history, every message size, every growth step, every limit that is a multiple of it): the buffer-level send path "
                 "behaves exactly like an abstract queue of accepted frames - one write per non-empty flush holding bytes++[0] of each accepted message in order, nothing for an empty "
                 "flush, nothing for a refused message; corollary: written stream ++ still-queued bytes = framing of the accepted messages. Tied to the code by ~3.5k/40k differential histories, including histories that reach the hook-lowered size limit (a message refused for its body or only for its terminator, then further traffic).",
        "design_ref": "DESIGN.md §5 C02, §4.2", "note": TX_NOTE,
        "technique": "Lean 4 proof (data refinement to an abstract queue, loop invariant on capacity) on a hand-written model; model-vs-implementation correspondence run",
    },
    "C03": {
        "level": "Machine-checked theorems over every serde data-model value (mutual structural induction) and every buffer length: the Rust-shaped serializer model (compound states, Some(0) early close, "
                 "run-splitting escape loop, key serializer) yields exactly the reference compact rendering when it fits, the key error when the bytes before it fit, BufferTooSmall otherwise; the 256-entry "
                 "ESCAPE table extracted from the current source is checked entry by entry; no emitted byte is below 0x20 (no NUL inside a frame); the output is well-formed UTF-8 whenever the strings are (escaping rewrites ASCII bytes only, into ASCII, and copies every multi-byte sequence - all 256 table entries checked); non-string/int keys are refused. "
                 "Reference-vs-serde_json and model-vs-code are checked three-way on ~32k (quick) / ~2M (thorough) values incl. every Unicode scalar.",
        "design_ref": "DESIGN.md §5 C03, §4.4",
        "note": "Trusted: Lean kernel; extractor for ESCAPE/HEX_DIGITS; the recording serializer that ships Rust values as data-model events; serde_json as the meaning of `compact JSON`; itoa/ryu digit texts opaque; "
                "UTF-8 validity: theorem C03_valid_utf8 (strings assumed well-formed as Rust strs, number texts ASCII) and oracle-checked per explored value.",
        "technique": "Lean 4 proof (capacity-respecting action algebra, mutual structural induction; decide over the extracted 256-entry table); three-way differential run zlink / serde_json / model",
    },
    "C08": {
        "level": "Machine-checked refinement theorem over the server-loop model: for every event sequence (connections, byte arrivals split anywhere, closes, server polls), any number of connections, every well-behaved connection "
                 "wherever it lives has had exactly its first k calls consumed, in order, once each, and its output (plus unwritten items of an open stream) equals the sequential per-connection reference; oneway calls answer nothing; and in every reachable idle state (no select branch can progress) every well-behaved connection whose bytes have all arrived has had ALL its calls answered (C08_quiescent); the model satisfies the very oracle that judges the implementation: in every reachable idle state every well-behaved client has been sent exactly SpecSrv.refOutCredit granted descs (C08_model_satisfies_oracle, via an accounting invariant of the results reply streams were allowed to hand over). "
                 "Differential run of the real Server::run future (manual executor, scripted listener/sockets) vs the model on 4k/60k schedules incl. the global service-invocation order.",
        "design_ref": "DESIGN.md §5 C08, §4.6", "note": RX_NOTE + " Server loop: Zlink/Model/Server.lean tied to server/mod.rs + select_all.rs by scenario `srv`; service = fixed test family; select_biased!/fuse polling order assumed as documented.",
        "technique": "Lean 4 proof (global invariant = conjunction of per-connection refinement invariants, preserved by every loop iteration and event); model-vs-implementation correspondence run",
    },
    "C09": {
        "level": "Machine-checked non-interference: the refinement invariant is required of well-behaved connections only and NOTHING is assumed of the others (arbitrary bytes, closes at any point, write failures, arbitrary state), "
                 "yet every loop iteration preserves it - so a healthy connection's replies are a function of its own calls. Differential fault-injection run (truncated frames, EOF mid-burst, read errors, write failure at write k, undecodable calls, long unterminated tails of 4.5..12 KB behind complete calls) with the server future required to stay pending.",
        "design_ref": "DESIGN.md §5 C09", "note": RX_NOTE + " Same server model as C08 with fault scripts (write-failure index, close/read-error events).",
        "technique": "Lean 4 proof (invariant guarded by a ghost `good` flag: obligations only for healthy connections); fault-injection correspondence run",
    },
    "C10": {
        "level": "Machine-checked: for every event sequence, every streaming connection's sent output followed by its unsent items equals the reference (items in order with the service's continues flags); the hand-back of a finished stream and the "
                 "drop of an unwritable subscription preserve every other connection's invariant; a ready call on another connection is served before any stream item; readiness of stream items is an environment event (Ev.produce): a stream with nothing ready is pending, polling it changes nothing (C10_pending_stream_untouched), in every idle state every other well-behaved connection has been answered in full while streams stay open and every result a stream had ready has been forwarded (C10_open_stream_blocks_nobody), and among ready streams the one served is SelectAll's pick after the previous winner (C10_stream_rotation). Differential run with streaming calls of 0..4 items under four flag patterns of the test service (conventional, all continuing, alternating, unflagged), pipelined calls before/behind, write failures; in every second case the service's stream type is Pending until `k` events grant results, and a third of those end with streams still open and silent.",
        "design_ref": "DESIGN.md §5 C10, §11.9", "note": RX_NOTE + " Same server model as C08; stream readiness is an environment event in model and harness.",
        "technique": "Lean 4 proof (same global invariant, stream bookkeeping `out ++ pending = reference`); model-vs-implementation correspondence run",
    },
    "C18": {
        "level": "Machine-checked: SelectAll returns the ready index of minimal rotation distance; the server's get_next_call is exactly that scan over `receive would complete now`; for every sequence of consecutive scans over an unchanged set, "
                 "starting right after A was served, if B is ready at every scan and not served then A is not served again (no double service); a ready connection is served within n-1 other calls per phase, hence within connections x (transitions+1) across renumberings; the same two statements are proved of whole stretches of the server loop itself (the successive winners of consecutive Server::run iterations over an unchanged connection list ARE that scan sequence: C18_run_is_winners, C18_server_no_double_service, C18_server_phase_bound, C18_positions_are_connections). "
                 "Differential run incl. flooder schedules where everything is buffered up front, with a direct fairness oracle on the real server's service order.",
        "design_ref": "DESIGN.md §5 C18", "note": RX_NOTE + " Rotation: Zlink/Model/Select.lean mirrors select_all.rs; the server loop's service order is proved to be the scan sequence (C18_run_is_winners); the tie of the model to the real loop is the correspondence of the global service order.",
        "technique": "Lean 4 proof (rotation-distance potential argument) on hand-written models; model-vs-implementation correspondence of the global service order plus a fairness oracle",
    },
    "C11": {
        "level": "PARTIAL by necessity. Machine-checked on a model of the physical receive buffer (bytes are not cleared on cursor reset; growth = possible reallocation): the property's full statement is FALSE (counterexample: two replies in separate reads, first item held), "
                 "and the part that holds is proved (a receive that finds its frame already buffered touches neither bytes nor allocation, so items of replies that arrived together stay intact). "
                 "The real chain reply stream is run with every item held while later ones are obtained, including all-buffered batches with one reply of 0.3..12 KiB (growth before the first item is yielded) and read boundaries drawn over the bytes (a read ending inside a reply behind complete ones); the model predicts exactly which held &str change (1500/20000 cases, 0 disagreements).",
        "design_ref": "DESIGN.md §5 C11", "note": RX_NOTE + " Known finding: ReplyStream lets safe code keep a borrow of the receive buffer across later receives.",
        "technique": "Lean 4 proof (counterexample by kernel evaluation; frame-already-buffered lemma) on a physical-buffer model; correspondence run holding borrowed items across later receives",
    },
    "C12": {
        "level": "Machine-checked theorems over every method declaration and argument list of the model: the call is `<interface>.<rename or PascalCase(name)>`, `parameters` present exactly when parameters are declared, each argument under its wire name, None omitted, more/oneway exactly as annotated; "
                 "the chain_ and chain-extension generators produce the same frame as the plain one; reply mapping = the receive classification of C04 plus MissingParameters, so an `error` reply is never Ok(Ok(_)). "
                 "A corpus of 60 (quick) / 600 (thorough) generated traits is compiled against the current macros on every run and every method exercised in all three forms, the chain-extension form also behind first calls padded so that the appended call ends on / next to a growth step of the write buffer.",
        "design_ref": "DESIGN.md §5 C12", "note": "Trusted: Lean kernel; rustc + the proc-macro expansion (observed through the compiled corpus only); the Python corpus generator; serde derive semantics of the generated structs.",
        "technique": "Lean 4 proof (definitional properties of three separately mirrored generators) + compile-and-run correspondence over a generated trait corpus",
    },
    "C15": {
        "level": "Machine-checked theorems over every interface tree for a model of codegen.rs (IDL tree -> generated declarations) composed with the proxy-macro model of C12 and serde / ReplyError derive semantics: method, parameter, field, output, enum-value and error names on the wire are exactly the IDL's, whatever the case converters do; "
                 "the whole parameter object of a call is the one the IDL prescribes; every IDL type maps to a Rust type of the declared JSON shape in all four tables; emitted identifiers are never bare keywords; output lifetimes are declared exactly when used. "
                 "The model is tied to the source by comparing, on every run, the declarations of the code generated for a corpus of 25 (quick) / 300 (thorough) interface descriptions (read back with syn) with the model's, by the extracted keyword and primitive-type tables, and by compiling the generated modules and exercising every method, type and error against the model and the IDL-spelled oracle.",
        "design_ref": "DESIGN.md §5 C15", "note": "Trusted: Lean kernel; rustc, serde, the proc macros as compiled (observed through the corpus only); zvg's syn read-back; the Python corpus generator and its heck port (checked against heck every run).",
        "technique": "Lean 4 proof (names/keys/shapes/keywords/lifetimes of the generator model, for all interface trees) + translator-extracted tables + compile-and-run correspondence of generated code over a generated IDL corpus",
    },
    "C16": {
        "level": "Machine-checked theorems: the std-type table extracted from the current source (32 parameterless impls, 15 constructor impls) is exactly the table the property describes (integers to int, floats to float, strings and chars to string, Option to ?, sequences and sets to [], string-keyed maps to [string], unit to the empty object, wrappers transparent), in both directions; "
                 "lifted by induction to every Rust type expression (idlType = specTy, including that a type outside the rules has no impl); the derives list exactly the fields / variants, in declaration order, under their Rust names, with doc comments as comments; what the derives assemble for a module with legal names is a well-formed description, so its text parses back to exactly it and re-renders identically "
                 "(C16_assembled_roundtrip, composing with the round-trip theorem of C14; excluded, as decidable conditions on the declarations: documented enum variants - the listed finding - and Option directly around Option). "
                 "A corpus of 80 (quick) / 400 (thorough) generated modules is compiled with the derives on every run; TYPE / CUSTOM_TYPE / VARIANTS and the assembled interface's text and re-parse are compared with the model and the oracle.",
        "design_ref": "DESIGN.md §5 C16", "note": "Trusted: Lean kernel; the extractor's regexes over type/*.rs (the table theorems are re-checked against their output on every run); rustc trait resolution and macro expansion as compiled; the Python corpus generator.",
        "technique": "Lean 4 proof over a translator-extracted impl table (table agreement by kernel evaluation, lifted by induction) + compile-and-run correspondence over a generated derive corpus; round trip: theorem on the model (assembled description well-formed, then C14) and Lean oracle on the implementation's text",
    },
    "C13": {
        "level": "Proof of the completeness direction for every layout + exhaustive-style correspondence. Machine-checked (unbounded in names, nesting depth, numbers of members / fields / variants / comments, and layout): every text of the grammar - given as an inductive relation between descriptions and texts with gaps of space/tab/CR/LF wherever tokens meet inside parentheses, around `:` `,` `->`, after keywords and between members, comment lines with arbitrary blanks in front of the interface, members, fields, parameters and custom-enum variants, members of the three kinds in any interleaving, optional gaps around the text - parses to exactly the description it denotes (C13_layout; C13_complete for the canonical text); the three name lexers are exact resp. complete for the grammar's regular expressions with longest match; parsing is total with two outcomes (no panic path in the model; the real parser runs under catch_unwind). Soundness is machine-checked too (every input text): whatever is accepted yields a description of grammatical names and parser-shaped comments (C13_sound_tree), and the accepted text is, after trimming, a text of the inductive grammar IfaceS denoting exactly that description - every byte a token of it, an attached comment or layout, nothing ignored (C13_sound_text, unconditional: that the parser never returns an enum without variants is C13_no_empty_enum - the two layout skippers agree since fix ee9d3d0, so `( gap )` is always read as the empty struct; fuel invariant through the nine mutually recursive type parsers). Comment lines end with LF, CR LF or a lone CR in both grammars. The keywords, primitive names and punctuation the models use are extracted from the source on every run (C13_literals). Not proved: equality of the completeness grammar and the soundness grammar. The correspondence run (function-by-function parser port vs real parser, plus an independent oracle) covers ~65k (quick) / ~6M (thorough) legal, truncated, mutated, deeply nested and random texts.",
        "design_ref": 'DESIGN.md §5 C13, §11.7', "note": "Trusted: Lean kernel; the port of winnow's combinators and str::trim (tied to the code by the correspondence run); the generator's construction of expected trees; the tokenizer oracle. Not proved: that the two grammar relations coincide (IfaceS additionally admits layout comments in gaps, form feed after keywords, members without white space between them); the fuel argument that an inline enum always has a variant.",
        "technique": 'Lean 4 proof (inductive grammar relation; induction on parser fuel with a type-size measure; lexer exactness by induction; mutual structural recursion on derivations) on a function-by-function port of the parser; model-vs-implementation correspondence with an independent oracle',
    },
    "C14": {
        "level": 'Proof + correspondence. Machine-checked (unbounded): for every well-formed description without commented enum variants, parsing its Display text yields exactly the description and re-rendering reproduces the text, comments included (C14_parse_render, C14_render_fixpoint); the GetInterfaceDescription exchange - Display text through the JSON string escaping of the extracted table, read back by a JSON string reader, parsed - returns exactly the description (C14_exchange, with unescape(escape s) = s for every byte string). The excluded class is exactly the listed finding (a commented enum variant renders in a form the parser refuses; counterexample theorem). Renderer and parser models agree with Display / Interface::try_from byte for byte and tree for tree on 4k / 60k constructor-built descriptions, and the real exchange (send_reply -> proxy call -> parse) is predicted byte for byte on 1.5k / 20k descriptions whose comments carry quotes, backslashes, control characters and non-ASCII text; the interfaces assembled from the derive corpus of C16 (compiled against the current macros) are rendered, parsed and rendered again as well.',
        "design_ref": 'DESIGN.md §5 C14, §11.7', "note": "Trusted: as C13 plus the model of the Display impls; the JSON string reader is a model of the part of serde_json's string parser that zlink's escaping exercises (tied to serde_json by scenario idlx). Known findings: commented enum variants (custom and inline).",
        "technique": 'Lean 4 proof (parse∘render = id by induction on parser fuel; escape/unescape round trip over all 256 extracted table entries; counterexample by kernel evaluation) on renderer + parser models; round-trip correspondence runs through the public constructors and through the real exchange',
    },
    "C19": {
        "level": "PARTIAL. Machine-checked: the write-all loop hands the whole buffer to the pipe for every partial-write behaviour; composed with the C02 refinement and C01 framing theorem, for every message list, partial-write schedule, read-size schedule and growth step the peer's receives return exactly the messages sent, in order, then EOF; "
                 "ids from a counter are distinct; the cancellation clause is refuted on the model (a flush abandoned after a partial write makes the next send emit a frame never sent) and what does hold (nothing written => nothing corrupted) is proved; the write-all loop has no suspension point after the last byte was taken (C19_no_suspension_after_last_byte), so only a partial write followed by a drop can break `each frame at most once`. "
                 "Real sockets: 46 (quick) / 330 (thorough) transfers up to 1 MiB in both directions on tokio and smol (including lists whose wire sizes sit exactly on read-buffer sizes: 255/256/257 first, powers of two, multiples of the growth step, each followed by a small message), bound and inherited-fd listeners with 1..8 connections, cancelled sends, and `pollonce` runs (70..200 small sends, each send future polled exactly once and dropped if still pending: only whole frames, each at most once, in order, every completed send's frame).",
        "design_ref": "DESIGN.md §5 C19", "note": "Trusted: Lean kernel; kernel socket = byte FIFO with partial writes (assumption); runtime scheduling, fd inheritance observed only. Known finding: a send abandoned after a partial write corrupts the peer's stream.",
        "technique": "Lean 4 proof (composition of the Tx refinement, a pipe lemma and the Rx framing theorem; counterexample by kernel evaluation); end-to-end runs on real Unix sockets with both runtimes",
    },
    "C20": {
        "level": "Machine-checked theorems about the adapter models over a capacity-1 broadcast channel model: the tokio adapter (explicit lag-skipping loop) and the smol adapter are the same function; a poll is pending iff nothing new was set, otherwise yields the most recent value marked continuing and brings the subscriber up to date (convergence, order by cursor monotonicity); "
                 "the subscription never ends while the state exists; a one-shot yields one final item and then ends. Both real crates are run on every history of length <= 7 (exhaustive) and 3000/60000 random ones and compared with the model, each other and the oracle.",
        "design_ref": "DESIGN.md §5 C20", "note": "Trusted: Lean kernel; the channel crates are modelled, not verified (validated by the correspondence run on both real implementations); harness zvrt.",
        "technique": "Lean 4 proof (case analysis on cursor vs sequence number) on hand-written adapter models; two-implementation correspondence run with manual polling",
    },
    "C17": {
        "level": "Machine-checked theorems parametric in growth step and limit: buffer capacity never exceeds the limit (inbound: every event sequence; outbound: every operation); a lone frame is "
                 "delivered iff its wire size is below the limit, for every growth step and read-size schedule, otherwise overflow with exactly `max` bytes buffered, on a fresh connection and after ANY history of consumed bursts (C17_rx_threshold_any_history); an outbound message is accepted iff "
                 "queued+len+1 <= limit, else refused with nothing queued or written. Boundary sweeps of the real code run at the hook-lowered limit against model and closed form, for lone frames and for frames behind a history of earlier, consumed frames (the verdict for a size must not depend on what the connection carried before).",
        "design_ref": "DESIGN.md §5 C17", "note": RX_NOTE + " " + TX_NOTE,
        "technique": "Lean 4 proof (capacity invariant, closed-form thresholds) on hand-written models with extracted constants; boundary-sweep correspondence run under the cfg hook",
    },
    "C01": {
        "level": "Machine-checked theorems (unbounded: every frame list, every read-size schedule, every arrival interleaving, every decode function) "
                 "about the receive-path model: one result per frame, in order, a function of that frame's bytes only, then end-of-stream; "
                 "streams of any total length are covered burst by burst (C01_any_length: only what is buffered at once is bounded by the limit; the capacity the buffer grew to earlier changes nothing); "
                 "tied to the code by a differential run of ~5k (quick) / ~60k (thorough) event scripts on the real Connection, with the Lean oracle evaluated on the implementation's own observations.",
        "design_ref": "DESIGN.md §5 C01, §4.1", "note": RX_NOTE,
        "technique": "Lean 4 proof (invariant + induction over events) on a hand-written model; model-vs-implementation correspondence run",
    },
    "C04": {
        "level": "Machine-checked theorems over every parameter shape, every set of error variants and every reply object (member order, duplicates, unknown members): a reply with an `error` member is never classified as success; "
                 "success / service-error / method-error are characterised exactly (iff) by the three decoders in declaration order; a reported error is always the variant the `error` member names; a frame without `error` member is never an error. "
                 "The serde semantics the model assumes are validated on 21k (quick) / 240k (thorough) type-directed reply objects across 30 compiled receivers with an independent Lean oracle on the implementation's verdicts.",
        "design_ref": "DESIGN.md §5 C04, §4.5", "note": "Trusted: Lean kernel; serde/serde_derive/serde_json semantics modelled (not verified) for the shape family; the harness's type corpus and JSON generator; extractor for the standard error list of varlink_service/api.rs.",
        "technique": "Lean 4 proof (case analysis over the decoding model) + model-vs-implementation correspondence over a compiled type corpus with a Lean oracle",
    },
    "C05": {
        "level": "Machine-checked theorems: encode/decode round trip of calls for every variant with distinct field names, every well-typed argument list and all 8 flag combinations; flags appear only when set; the member list handed to the method type is exactly the non-flag members; "
                 "error encoding shape and round trip (derived and standard errors); tag/content order independence; reply members only when present; absent/null/{} parameters for field-less variants; every well-formed call (one `method` naming a variant, boolean flags anywhere, the right `parameters` in any accepted spelling, any member order) is decoded, never refused (C05_wellformed_call_accepted - the completeness predicate the driver evaluates on every frame the real Call deserializer refuses). "
                 "Exhaustive permutation sweep of call members (all orders of <= 5 members x 8 flag sets x 4 method types) and byte-for-byte encoder comparison against the real code.",
        "design_ref": "DESIGN.md §5 C05, §4.5", "note": "Trusted: as C04, plus the extractor for the flag names of call/ser.rs and call/de.rs. Known finding: `{}` parameters for a unit-output reply (receive_reply::<(), E>) are refused.",
        "technique": "Lean 4 proof (round-trip lemmas by induction on field lists, case analysis on flags) + exhaustive permutation correspondence run",
    },
    "C06": {
        "level": "Machine-checked theorems: for every owed-reply count, every conforming script, every list of trailing frames, every read-size schedule and every interleaving of arrivals with stream polls, the "
                 "reply-stream model yields exactly the owed frames in order, is pending only while something is owed, then ends, and the receive state has consumed a prefix of the script only (never a trailing frame); "
                 "an all-oneway chain ends without touching the transport; enqueue*+flush is one write in chain order (via the C02 refinement). Differential run over all 1092 chain shapes.",
        "design_ref": "DESIGN.md §5 C06", "note": RX_NOTE + " Chain/ReplyStream bookkeeping: Zlink/Model/Chain.lean tied to chain/mod.rs + reply_stream.rs by scenario `chain`.",
        "technique": "Lean 4 proof (invariant over the poll-level receive model + index bookkeeping) on a hand-written model; model-vs-implementation correspondence run",
    },
    "C07": {
        "level": "Machine-checked theorems: for every interleaving of partial arrivals, polls of receive futures that are dropped, and close, the non-pending outcomes are exactly "
                 "the frames sent, in order (safety), and once everything has arrived a poll is never pending while a frame is owed (completeness); the correspondence run drops or retains "
                 "the real receive future at every suspension point of short streams and random subsets of long ones.",
        "design_ref": "DESIGN.md §5 C07, §4.1", "note": RX_NOTE,
        "technique": "Lean 4 proof (poll-level invariant) on a hand-written model; model-vs-implementation correspondence run with a manual executor",
    },
}
