#!/usr/bin/env python3
"""Generator of the introspection-derive corpus (C16): writes <src-dir>/gen_intro.rs.

    gen_intro.py <seed> <n-modules> <src-dir>

Each module declares 2..5 Rust types - structs and unit-variant enums with `#[derive(Type)]` or
`#[derive(CustomType)]`, error enums with `#[derive(ReplyError)]` (the introspection one; unit, struct and
single-tuple variants) - with 0..6 fields drawn from every type the `Type` trait is implemented for
(primitives, std special types, wrappers, collections, earlier types of the module, with and without
lifetimes) and doc comments on types, fields and variants. The declaration travels in the case line;
nothing about the expected description is computed here: the model and the oracle do that in Lean."""
import sys, os, random

def hexs(s): return s.encode().hex() or "-"

# (token, rust text, needs lifetime)
ATOMS = [
    ("bool", "bool", False), ("i8", "i8", False), ("i16", "i16", False), ("i32", "i32", False), ("i64", "i64", False),
    ("u8", "u8", False), ("u16", "u16", False), ("u32", "u32", False), ("u64", "u64", False), ("isize", "isize", False),
    ("usize", "usize", False), ("f32", "f32", False), ("f64", "f64", False), ("String", "String", False),
    ("&str", "&'a str", True), ("char", "char", False), ("unit", "()", False), ("serde_json::Value", "serde_json::Value", False),
    ("core::time::Duration", "core::time::Duration", False), ("std::time::Instant", "std::time::Instant", False),
    ("std::time::SystemTime", "std::time::SystemTime", False), ("std::path::PathBuf", "std::path::PathBuf", False),
    ("std::ffi::OsString", "std::ffi::OsString", False), ("core::net::IpAddr", "core::net::IpAddr", False),
    ("core::net::Ipv4Addr", "core::net::Ipv4Addr", False), ("core::net::Ipv6Addr", "core::net::Ipv6Addr", False),
    ("core::net::SocketAddr", "core::net::SocketAddr", False), ("core::net::SocketAddrV4", "core::net::SocketAddrV4", False),
    ("core::net::SocketAddrV6", "core::net::SocketAddrV6", False),
]
# (token, rust text with {} for the argument, needs lifetime)
CTORS = [
    ("Option", "Option<{}>", False), ("Vec", "Vec<{}>", False), ("&[]", "&'a [{}]", True),
    ("HashSet", "std::collections::HashSet<{}>", False), ("BTreeSet", "std::collections::BTreeSet<{}>", False),
    ("HashMap<String>", "std::collections::HashMap<String, {}>", False), ("HashMap<&str>", "std::collections::HashMap<&'a str, {}>", True),
    ("BTreeMap<String>", "std::collections::BTreeMap<String, {}>", False), ("BTreeMap<&str>", "std::collections::BTreeMap<&'a str, {}>", True),
    ("Box", "Box<{}>", False), ("std::rc::Rc", "std::rc::Rc<{}>", False), ("std::sync::Arc", "std::sync::Arc<{}>", False),
    ("std::cell::Cell", "std::cell::Cell<{}>", False), ("std::cell::RefCell", "std::cell::RefCell<{}>", False),
]
COW = ("std::borrow::Cow(str)", "std::borrow::Cow<'a, str>", True)
FIELDS = ["id", "name", "count", "user_name", "x", "flag2", "a_b", "items", "kind", "value", "ttl", "path", "addr", "n1", "data"]
VARIANTS = ["Idle", "Busy", "Off", "V2", "NotSet", "A", "Http2", "InProgress"]
TYPES = ["Person", "Config", "State", "Rec9", "Item", "Header", "Stat", "Mode", "Point", "Leaf"]
ERRORS = ["NotFound", "Busy", "Failed", "Invalid", "E2", "Denied"]
DOCS = ["", " two leading blanks", "A doc.", "second line", "x", "with  two blanks", "trailing blank ", "Unicode é", "dash - and # hash"]

def gen_docs(rng, p=0.35):
    if rng.random() > p:
        return []
    return [rng.choice(DOCS) for _ in range(rng.randint(1, 2))]

def gen_rt(rng, prev, depth=0):
    """returns (token, rust text, needs lifetime)"""
    r = rng.random()
    if depth >= 3 or r < 0.5:
        return rng.choice(ATOMS) if rng.random() > 0.04 else COW
    if r < 0.62 and prev:
        t = rng.choice(prev)
        return (f"@{t['idx']}", t["name"] + ("<'a>" if t["lt"] else ""), t["lt"])
    c = rng.choice(CTORS)
    # Cell needs a sized, and Option<Option<..>> is not something the IDL can say: keep Option un-nested
    inner = gen_rt(rng, prev, depth + 1)
    # (also not through the transparent wrappers: Option<Box<Option<T>>> would be `??T` as well)
    core = inner[0]
    while any(core.startswith(w + "(") for w in ("Box", "std::rc::Rc", "std::sync::Arc", "std::cell::Cell", "std::cell::RefCell")):
        core = core[core.index("(") + 1:]
    if c[0] == "Option" and core.startswith("Option("):
        inner = rng.choice(ATOMS)
    return (f"{c[0]}({inner[0]})", c[1].format(inner[1]), c[2] or inner[2])

def gen_fields(rng, prev, lo, hi):
    out, seen = [], set()
    for _ in range(rng.randint(lo, hi)):
        n = rng.choice(FIELDS)
        if n in seen:
            continue
        seen.add(n)
        out.append(dict(name=n, rt=gen_rt(rng, prev), docs=gen_docs(rng)))
    return out

def gen_module(rng, mi):
    types, used = [], set()
    n = rng.randint(2, 5)
    for ti in range(n):
        kind = rng.choice(["ts", "cs", "cs", "te", "ce", "er"]) if ti > 0 else rng.choice(["cs", "ce"])
        pool = ERRORS if kind == "er" else TYPES
        name = rng.choice(pool) + ("Error" if kind == "er" else "")
        if name in used:
            name += str(ti)
        used.add(name)
        # only `Type` / `CustomType` derives can be referenced as field types; references are by index into `types`
        refs = [dict(name=t["name"], lt=t["lt"], idx=i) for i, t in enumerate(types) if t["kind"] in ("ts", "cs", "te", "ce")]
        t = dict(kind=kind, name=name, docs=gen_docs(rng) if kind != "er" else [], lt=False)
        if kind in ("ts", "cs"):
            t["fields"] = gen_fields(rng, refs, 0, 6)
            t["lt"] = any(f["rt"][2] for f in t["fields"])
        elif kind in ("te", "ce"):
            vs, seen = [], set()
            for _ in range(rng.randint(1, 4)):
                v = rng.choice(VARIANTS)
                if v in seen: continue
                seen.add(v)
                vs.append(dict(name=v, docs=gen_docs(rng, 0.06)))
            t["variants"] = vs
        else:
            vs, seen = [], set()
            structs = [r for r in refs if types[r["idx"]]["kind"] == "ts"]
            for _ in range(rng.randint(1, 4)):
                v = rng.choice(ERRORS) + rng.choice(["", "X"])
                if v in seen: continue
                seen.add(v)
                shape = rng.choice(["u", "n", "n", "t"])
                if shape == "t" and not structs:
                    shape = "n"
                d = dict(name=v, docs=gen_docs(rng), shape=shape)
                if shape == "n":
                    d["fields"] = gen_fields(rng, refs, 1, 3)
                elif shape == "t":
                    s = rng.choice(structs)
                    d["rt"] = (f"@{s['idx']}", s["name"] + ("<'a>" if s["lt"] else ""), s["lt"])
                vs.append(d)
            t["variants"] = vs
            t["lt"] = any((v["shape"] == "n" and any(f["rt"][2] for f in v["fields"])) or (v["shape"] == "t" and v["rt"][2]) for v in vs)
        types.append(t)
    if mi % 8 == 5:
        # every eighth module: an error enum in which documented unit / struct / tuple variants FOLLOW a tuple variant
        # (the tuple variant's description is a `match` with panicking arms inside the VARIANTS initializer: what
        # comes after it is compiled under different promotion rules; witness of the defect repaired by b3e1c1d)
        refs = [dict(name=t["name"], lt=t["lt"], idx=i) for i, t in enumerate(types) if t["kind"] in ("ts", "cs", "te", "ce")]
        ws = dict(kind="ts", name="Wit%d" % len(types), docs=gen_docs(rng), lt=False, fields=gen_fields(rng, refs, 1, 3))
        ws["lt"] = any(f["rt"][2] for f in ws["fields"])
        types.append(ws)
        rt = (f"@{len(types) - 1}", ws["name"] + ("<'a>" if ws["lt"] else ""), ws["lt"])
        vs = [dict(name="First", docs=gen_docs(rng), shape="t", rt=rt),
              dict(name="Then", docs=["after a tuple variant"], shape="u"),
              dict(name="ThenN", docs=["after a tuple variant", "second line"], shape="n", fields=gen_fields(rng, refs, 1, 2)),
              dict(name="ThenT", docs=["x"], shape="t", rt=rt)]
        we = dict(kind="er", name="WitError", docs=[], variants=vs)
        we["lt"] = any((v["shape"] == "n" and any(f["rt"][2] for f in v["fields"])) or (v["shape"] == "t" and v["rt"][2]) for v in vs)
        types.append(we)
    return dict(idx=mi, types=types)

def docs_tok(docs): return ",".join((hexs(d) if d else "_") for d in docs) or "-"   # `_`: an empty doc line

def decl(m):
    o = [str(len(m["types"]))]
    for t in m["types"]:
        if t["kind"] in ("ts", "cs"):
            o += [t["kind"], t["name"], docs_tok(t["docs"]), str(len(t["fields"]))]
            for f in t["fields"]:
                o += [f["name"], f["rt"][0], docs_tok(f["docs"])]
        elif t["kind"] in ("te", "ce"):
            o += [t["kind"], t["name"], docs_tok(t["docs"]), str(len(t["variants"]))]
            for v in t["variants"]:
                o += [v["name"], docs_tok(v["docs"])]
        else:
            o += ["er", t["name"], str(len(t["variants"]))]
            for v in t["variants"]:
                o += [v["name"], docs_tok(v["docs"]), v["shape"]]
                if v["shape"] == "n":
                    o.append(str(len(v["fields"])))
                    for f in v["fields"]:
                        o += [f["name"], f["rt"][0], docs_tok(f["docs"])]
                elif v["shape"] == "t":
                    o.append(v["rt"][0])
    return " ".join(o)

def doc_lines(docs, ind):
    return "".join(f"{ind}/// {d}\n" for d in docs)

def ser_safe(tok):
    """field types for which `#[derive(serde::Serialize)]` compiles without extra features or bounds"""
    return not any(w in tok for w in ("Rc", "Arc", "Cell", "Instant", "OsString", "Cow", "@"))

def serde_attr(f, ind):
    """serde options that keep a field on the wire under its own name do not concern the description: a field that is
    only *sometimes* left out when serialising (`skip_serializing_if`) or filled in when absent (`default`) is still a field"""
    tok = f["rt"][0]
    if tok.startswith("Option("):
        return ind + '#[serde(skip_serializing_if = "Option::is_none")]\n'
    if tok.startswith("Vec("):
        return ind + '#[serde(default, skip_serializing_if = "Vec::is_empty")]\n'
    return ""

def emit(m):
    i = m["idx"]
    o = [f"pub mod i{i} {{", "    use super::*;"]
    for t in m["types"]:
        lt = "<'a>" if t["lt"] else ""
        if t["kind"] in ("ts", "cs"):
            der = "Type" if t["kind"] == "ts" else "CustomType"
            # structs whose field types allow it also derive Serialize and carry the serde options real message types carry
            ser = all(ser_safe(f["rt"][0]) for f in t["fields"])
            if ser: der += ", serde::Serialize"
            o.append(doc_lines(t["docs"], "    ") + f"    #[derive({der})]\n    #[zlink(crate = \"zlink_core\")]\n    pub struct {t['name']}{lt} {{")
            for f in t["fields"]:
                o.append(doc_lines(f["docs"], "        ") + (serde_attr(f, "        ") if ser else "") + f"        pub {f['name']}: {f['rt'][1]},")
            o.append("    }")
        elif t["kind"] in ("te", "ce"):
            der = "Type" if t["kind"] == "te" else "CustomType"
            o.append(doc_lines(t["docs"], "    ") + f"    #[derive({der})]\n    #[zlink(crate = \"zlink_core\")]\n    pub enum {t['name']} {{")
            for v in t["variants"]:
                o.append(doc_lines(v["docs"], "        ") + f"        {v['name']},")
            o.append("    }")
        else:
            o.append(f"    #[derive(IntroReplyError)]\n    #[zlink(crate = \"zlink_core\")]\n    pub enum {t['name']}{lt} {{")
            for v in t["variants"]:
                if v["shape"] == "u":
                    o.append(doc_lines(v["docs"], "        ") + f"        {v['name']},")
                elif v["shape"] == "n":
                    o.append(doc_lines(v["docs"], "        ") + f"        {v['name']} {{")
                    for f in v["fields"]:
                        o.append(doc_lines(f["docs"], "            ") + f"            {f['name']}: {f['rt'][1]},")
                    o.append("        },")
                else:
                    o.append(doc_lines(v["docs"], "        ") + f"        {v['name']}({v['rt'][1]}),")
            o.append("    }")
    d = decl(m)
    o.append("    pub fn run(out: &mut Vec<String>) {")
    for k, t in enumerate(m["types"]):
        if t["kind"] != "er":
            o.append(f"        out.push(format!(\"{{}} => {{}}\", r####\"introty {d} I {k}\"####, dty(&ty_of(<{t['name']} as Type>::TYPE))));")
    cts = [t for t in m["types"] if t["kind"] in ("cs", "ce")]
    ers = [t for t in m["types"] if t["kind"] == "er"]
    o.append("        let cts: Vec<&'static zlink_core::idl::CustomType<'static>> = vec![" + ", ".join(f"<{t['name']} as CustomType>::CUSTOM_TYPE" for t in cts) + "];")
    o.append("        let mut ers: Vec<&'static zlink_core::idl::Error<'static>> = vec![];")
    for t in ers:
        o.append(f"        ers.extend(<{t['name']} as IntroReplyError>::VARIANTS.iter().copied());")
    o.append(f"        let iface = zlink_core::idl::Interface::new(\"org.ex.M{i}\", &[], leak_vec(cts), leak_vec(ers), &[]);")
    o.append(f"        out.push(format!(\"{{}} => {{}}\", r####\"intro N {i} {d}\"####, dump(&tree_of(&iface))));")
    o.append("        let text = iface.to_string();")
    o.append(f"        out.push(format!(\"{{}} => R {{}} P {{}}\", r####\"intrort N {i} {d}\"####, enc_bytes(text.as_bytes()), parse_obs(&text)));")
    o.append("    }")
    o.append("}")
    return "\n".join(o)

def write_if_changed(path, text):
    try:
        if open(path).read() == text:
            return
    except OSError:
        pass
    open(path, "w").write(text)

def main():
    seed, n, src = int(sys.argv[1]), int(sys.argv[2]), sys.argv[3]
    skip = set(int(x) for x in sys.argv[4].split(",")) if len(sys.argv) > 4 and sys.argv[4] else set()
    rng = random.Random(seed * 15485863 + 5)
    mods = [gen_module(rng, i) for i in range(n)]
    src_lines = ["// GENERATED by /verif/corpus/gen_intro.py - do not edit.",
                 "#![allow(unused, non_snake_case, non_camel_case_types, dead_code, clippy::all)]",
                 "use crate::support::*;", "use crate::idltree::*;",
                 "use zlink_core::introspect::{CustomType, ReplyError as IntroReplyError, Type};", ""]
    # line ranges of the modules (for attributing compile errors), written next to the source
    import json
    ranges = []
    for m in mods:
        if m["idx"] in skip:
            continue
        text = emit(m)
        start = sum(x.count("\n") + 1 for x in src_lines) + 1
        src_lines.append(text)
        ranges.append(dict(idx=m["idx"], start=start, end=start + text.count("\n"), decl=decl(m)))
    src_lines.append("pub fn run_all(out: &mut Vec<String>) {\n" + "\n".join(f"    i{m['idx']}::run(out);" for m in mods if m["idx"] not in skip) + "\n}")
    write_if_changed(os.path.join(src, "gen_intro.rs"), "\n".join(src_lines) + "\n")
    write_if_changed(os.path.join(src, "gen_intro.lines.json"), json.dumps(ranges))

if __name__ == "__main__":
    main()
