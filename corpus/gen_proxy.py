#!/usr/bin/env python3
"""Generator of the proxy-trait corpus (C12): writes harness/zvc/src/gen_proxy.rs.

Each trait is random over the declaration space: method names of 1..4 words/digits (renamed or not),
0..4 parameters of scalar / &str / String / Option / slice / struct / generic types with optional wire
renames, elided or explicit lifetimes, `more` / `oneway`. Every method is called in its plain, `chain_`
and chain-extension forms with random literal arguments on a capturing connection; each call prints
`proxy <declaration> A <args> FORM <form> => <frame hex>`; plain calls also print how a set of reply
frames is mapped (`proxyreply ...`)."""
import os, sys, random

def hexs(s): return s.encode().hex() or "-"

WORDS = ["get", "url", "set", "x", "list", "all", "2fa", "v2", "item", "io", "a", "b9"]
PNAMES = ["name", "id", "opt", "items", "cfg", "value", "the_key", "n", "flag", "x1"]
RENAMES = ["theName", "ID", "user_name", "Val", "k"]
# wire names drawn from the Varlink field-name grammar [A-Za-z](_?[A-Za-z0-9])* piece by piece (lower word, Capitalised
# word, ACRONYM, digits; glued directly or by one underscore): hashSha_256, maxAge_2, x_Y9 ...; plus a few names
# outside that grammar, which a rename must carry verbatim all the same (it is a JSON member name)
_LOW = ["a", "id", "max", "hash", "user", "x", "ip", "url", "age", "sha", "is", "fa", "v", "name"]
_DIG = ["2", "9", "256", "3", "64", "0"]
ODD_RENAMES = ["with-dash", "dotted.name", "tr\u00e4ger", "_lead", "9lives", "a__b", "trail_"]
def gram_rename(rng):
    def piece(first):
        k = rng.randint(0, 3 if not first else 2)
        w = rng.choice(_LOW)
        return w if k == 0 else (w[0].upper() + w[1:]) if k == 1 else w.upper() if k == 2 else rng.choice(_DIG)
    out = piece(True)
    for _ in range(rng.randint(0, 3)):
        out += ("_" if rng.random() < 0.4 else "") + piece(False)
    return out

def sexpr(v):
    if v is None: return "n"
    if v is True: return "T"
    if v is False: return "F"
    if isinstance(v, int): return "#" + hexs(str(v))
    if isinstance(v, str): return "s" + hexs(v)
    if isinstance(v, list): return "[" + ",".join(sexpr(x) for x in v) + "]"
    if isinstance(v, dict): return "{" + ",".join(hexs(k) + ":" + sexpr(x) for k, x in v.items()) + "}"
    raise ValueError(v)

def rstr(rng):
    return "".join(rng.choice("abcxyzQR7 _-") for _ in range(rng.randint(0, 8)))

RAW_METHODS = ["type", "move", "match", "ref", "loop", "in", "mod", "use", "yield", "try", "gen", "box", "final", "where", "dyn", "async"]

OPTION_PATHS = ["Option", "Option", "std::option::Option", "core::option::Option", "::std::option::Option"]

_RUST_KW = set("as break const continue crate else enum extern false fn for if impl in let loop match mod move mut pub ref return self Self static struct super trait true type unsafe use where while async await dyn abstract become box do final macro override priv typeof unsized virtual yield try gen".split())

def harvested_names():
    """identifiers the macro's own source binds (`let x`, closure parameters): a trait argument of the same name must
    still reach the wire under its own name and with its own value, whatever locals the expansion uses"""
    import glob, re
    names = set()
    for f in glob.glob("/repo/zlink-macros/src/proxy/*.rs") + ["/repo/zlink-macros/src/proxy.rs"]:
        try:
            src = open(f).read()
        except OSError:
            continue
        for m in re.finditer(r"\blet\s+(?:mut\s+)?([a-z][a-z0-9_]*)\b", src): names.add(m.group(1))
        for m in re.finditer(r"\|\s*([a-z][a-z0-9_]*)\s*\|", src): names.add(m.group(1))
    names |= {"method", "parameters", "params", "call", "reply", "connection", "conn", "result", "error", "out", "value", "this", "buf", "stream", "chain"}
    return sorted(n for n in names if n not in _RUST_KW and "__" not in n and not n.endswith("_"))

HARVESTED = harvested_names()

def gen_param(rng, explicit_lt):
    kind = rng.choice(["u32", "i64", "bool", "str", "string", "opt_u32", "opt_str", "slice", "struct", "generic"])
    lt = "'a " if explicit_lt else ""
    if kind == "u32":
        v = rng.randint(0, 4000000000); return ("u32", f"{v}u32", v, False)
    if kind == "i64":
        v = rng.randint(-10**12, 10**12); return ("i64", f"{v}i64", v, False)
    if kind == "bool":
        v = rng.random() < 0.5; return ("bool", "true" if v else "false", v, False)
    if kind == "str":
        v = rstr(rng); return (f"&{lt}str", f"{v!r}".replace("'", '"'), v, False)
    if kind == "string":
        v = rstr(rng); return ("String", f'String::from("{v}")', v, False)
    if kind == "opt_u32":
        op = rng.choice(OPTION_PATHS)
        if rng.random() < 0.5: return (f"{op}<u32>", "None", None, True)
        v = rng.randint(0, 99999); return (f"{op}<u32>", f"Some({v}u32)", v, True)
    if kind == "opt_str":
        op = rng.choice(OPTION_PATHS)
        if rng.random() < 0.5: return (f"{op}<&{lt}str>", "None", None, True)
        v = rstr(rng); return (f"{op}<&{lt}str>", f'Some("{v}")', v, True)
    if kind == "slice":
        v = [rng.randint(0, 999) for _ in range(rng.randint(0, 3))]
        return (f"&{lt}[u32]", "&[" + ",".join(f"{x}u32" for x in v) + "]", v, False)
    if kind == "struct":
        a = rng.randint(0, 99); b = rstr(rng)
        return ("Cfg", f'Cfg {{ a: {a}, b: String::from("{b}") }}', {"a": a, "b": b}, False)
    # generic
    if rng.random() < 0.5:
        v = rng.randint(0, 999); return ("GEN", f"{v}u32", v, False)
    v = rstr(rng); return ("GEN", f'String::from("{v}")', v, False)

def gen_trait(rng, ti):
    methods = []
    used = set()
    for mi in range(rng.randint(1, 4)):
        words = [rng.choice(WORDS) for _ in range(rng.randint(1, 4))]
        if words[0][0].isdigit(): words[0] = "m" + words[0]
        rust = "_".join(words)
        if rust in used or rust in ("a", "x"): rust += f"_{mi}q"
        used.add(rust)
        rename = rng.choice([None, None, None, "GetURL", "Custom2FA", "lowercase"])
        # one method in seven is named by a keyword and therefore written as a raw identifier (`r#type`): the `r#` is
        # spelling, the method's name - what PascalCase applies to - is the keyword
        raw = False
        if rng.random() < 1 / 7:
            kw = rng.choice(RAW_METHODS)
            if kw not in used:
                rust = kw; raw = True; used.add(kw)
                if rng.random() < 0.7: rename = None
        flag = rng.choice(["", "", "", "more", "oneway"])
        explicit_lt = rng.random() < 0.3
        will_gen = rng.random() < 0.25
        if will_gen:
            # the macro does not accept a generic method whose reference parameters have elided lifetimes
            explicit_lt = True
        params = []
        pn = set()
        ngen = 0
        for _ in range(rng.randint(0, 4)):
            name = rng.choice(HARVESTED) if (HARVESTED and rng.random() < 0.3) else rng.choice(PNAMES)
            if name in pn: continue
            pn.add(name)
            ty, lit, val, optional = gen_param(rng, explicit_lt)
            gen = None
            if ty == "GEN":
                if ngen >= 1 or not will_gen: continue
                ngen += 1; gen = "G0"; ty = "G0"
            prn = rng.choice([None, None, RENAMES[len(params) % len(RENAMES)], gram_rename(rng), gram_rename(rng),
                              ODD_RENAMES[rng.randrange(len(ODD_RENAMES))] if rng.random() < 0.3 else None])
            wires = {q["rename"] or q["name"] for q in params}
            if prn is not None and (prn in wires or prn in PNAMES):
                prn = None
            params.append(dict(name=name, ty=ty, lit=lit, val=val, optional=optional, rename=prn, gen=gen))
        methods.append(dict(rust=rust, src=("r#" + rust) if raw else rust, rename=rename, flag=flag, explicit_lt=explicit_lt, params=params, unit_out=rng.random() < 0.3))
    return dict(idx=ti, iface=f"org.ex.T{ti}", methods=methods)

def decl_str(t, m):
    ps = ",".join(f"{p['name']}:{p['rename'] or '-'}:{'opt' if p['optional'] else 'req'}" for p in m["params"]) or "-"
    return f"I {t['iface']} R {m['rust']} N {m['rename'] or '-'} F {m['flag'] or '-'} P {ps}"

def args_str(m):
    return " ".join(sexpr(p["val"]) for p in m["params"]) or "-"

def emit_trait(t):
    o = []
    i = t["idx"]
    o.append(f"pub mod t{i} {{\n    use super::*;\n    #[zlink_core::proxy(interface = \"{t['iface']}\", crate = \"zlink_core\")]\n    pub trait T{i} {{")
    for m in t["methods"]:
        attrs = []
        if m["rename"]: attrs.append(f'rename = "{m["rename"]}"')
        if m["flag"]: attrs.append(m["flag"])
        if attrs: o.append(f"        #[zlink({', '.join(attrs)})]")
        gens = []
        if m["explicit_lt"] and any("'a" in p["ty"] for p in m["params"]): gens.append("'a")
        if any(p["gen"] for p in m["params"]): gens.append("G0: serde::Serialize + core::fmt::Debug")
        g = f"<{', '.join(gens)}>" if gens else ""
        def pdecl(p):
            attr = ('#[zlink(rename = "' + p['rename'] + '")] ') if p['rename'] else ''
            return ", " + attr + p['name'] + ": " + p['ty']
        ps = "".join(pdecl(p) for p in m["params"])
        out = "()" if m["unit_out"] else "Outp"
        if m["flag"] == "oneway":
            ret = "zlink_core::Result<()>"
        elif m["flag"] == "more":
            ret = f"zlink_core::Result<impl futures_util::Stream<Item = zlink_core::Result<core::result::Result<{out}, PErr>>>>"
        else:
            ret = f"zlink_core::Result<core::result::Result<{out}, PErr>>"
        o.append(f"        async fn {m['src']}{g}(&mut self{ps}) -> {ret};")
    o.append("    }")
    o.append("    pub fn run(out: &mut Vec<String>) {")
    for m in t["methods"]:
        args = ", ".join(p["lit"] for p in m["params"])
        d = decl_str(t, m) + " A " + args_str(m)
        outp = "()" if m["unit_out"] else "Outp"
        # plain
        o.append("        {")
        o.append("            let net = new_net(vec![]);")
        o.append("            let mut conn = Connection::new(SSocket(net.clone()));")
        if m["flag"] == "oneway":
            o.append(f"            let _ = block_on(conn.{m['src']}({args}));")
        elif m["flag"] == "more":
            if m["unit_out"]:
                o.append("            push_frames(&net, &[r#\"{\"continues\":true}\"#, r#\"{\"continues\":true}\"#, r#\"{}\"#, r#\"{}\"#]);")
            else:
                o.append("            push_frames(&net, &[r#\"{\"parameters\":{\"v\":1},\"continues\":true}\"#, r#\"{\"parameters\":{\"v\":2},\"continues\":true}\"#, r#\"{\"parameters\":{\"v\":3}}\"#, r#\"{\"parameters\":{\"v\":4}}\"#]);")
            o.append(f"            let items = block_on(async {{ match conn.{m['src']}({args}).await {{ Ok(s) => {{ let mut s = Box::pin(s); let mut v = vec![]; while let Some(i) = futures_util::StreamExt::next(&mut s).await {{ v.push(cls(i)); }} v }} Err(_) => vec![\"send-failed\".to_string()] }} }});")
            o.append(f"            out.push(format!(\"{{}} => {{}}\", r###\"proxystream {d} U {1 if m['unit_out'] else 0}\"###, items.join(\" \")));")
        else:
            o.append("            push_frames(&net, &[r#\"{\"parameters\":{\"v\":7}}\"#]);")
            o.append(f"            let _ = block_on(conn.{m['src']}({args}));")
        o.append(f"            out.push(format!(\"{{}} => {{}}\", r###\"proxy {d} FORM plain\"###, written(&net)));")
        o.append("        }")
        if m["flag"] != "oneway":
            # reply mapping (plain, non-streaming)
            if m["flag"] == "":
                o.append("        for (ri, reply) in REPLIES.iter().enumerate() {")
                o.append("            let net = new_net(vec![]);")
                o.append("            let mut conn = Connection::new(SSocket(net.clone()));")
                o.append("            push_frames(&net, &[reply]);")
                o.append(f"            let r = block_on(conn.{m['src']}({args}));")
                o.append(f"            out.push(format!(\"proxyreply U {1 if m['unit_out'] else 0} R {{ri}} => {{}}\", cls(r)));")
                o.append("        }")
            # chain_ form
            o.append("        {")
            o.append("            let net = new_net(vec![]);")
            o.append("            let mut conn = Connection::new(SSocket(net.clone()));")
            o.append(f"            if let Ok(chain) = conn.chain_{m['rust']}::<{'' if not any(p['gen'] for p in m['params']) else '_, '}{outp}, PErr>({args}) {{ let _ = block_on(chain.send()); }}")
            o.append(f"            out.push(format!(\"{{}} => {{}}\", r###\"proxy {d} FORM chain\"###, written(&net)));")
            o.append("        }")
            # chain-extension form (not generated for streaming methods): a fixed first call, then this method
            if m["flag"] == "more":
                continue
            o.append("        {")
            o.append("            use zlink_core::Call;")
            o.append("            let run_ext = |pad: usize| -> Vec<u8> {")
            o.append("                let net = new_net(vec![]);")
            o.append("                let mut conn = Connection::new(SSocket(net.clone()));")
            o.append(f"                if let Ok(chain) = conn.chain_call::<FirstCall, {outp}, PErr>(&Call::new(FirstCall {{ method: padded_first(pad) }})) {{")
            o.append(f"                    if let Ok(chain) = chain.{m['src']}({args}) {{ let _ = block_on(chain.send()); }}")
            o.append("                }")
            o.append("                let w = net.borrow().writes.concat(); w")
            o.append("            };")
            o.append("            let w0 = run_ext(0);")
            o.append(f"            out.push(format!(\"{{}} => {{}}\", r###\"proxy {d} FORM ext\"###, after_first(&w0)));")
            # the same call behind a first call of every length that puts the END of this call next to a growth
            # step of the write buffer (the call is serialised at a position > 0 there)
            o.append("            for (t, pad) in ext_pads(&w0) {")
            o.append("                let r = std::panic::catch_unwind(std::panic::AssertUnwindSafe(|| after_first(&run_ext(pad)))).unwrap_or_else(|_| \"panic\".into());")
            o.append(f"                out.push(format!(\"{{}} at{{t}} => {{}}\", r###\"proxy {d} FORM ext\"###, r));")
            o.append("            }")
            o.append("        }")
    o.append("    }")
    o.append("}")
    return "\n".join(o)

def main():
    seed = int(sys.argv[1]); n = int(sys.argv[2]); path = sys.argv[3]
    # traits whose expansion does not compile are left out on a second pass (they are failing inputs of their own:
    # "for every trait the macro accepts" - these traits are acceptable, it is the generated code that is refused)
    skip = set(int(x) for x in sys.argv[4].split(",")) if len(sys.argv) > 4 and sys.argv[4] else set()
    rng = random.Random(seed * 7919 + 13)
    traits = [gen_trait(rng, i) for i in range(n)]
    src = ["// GENERATED by /verif/corpus/gen_proxy.py - do not edit.", "#![allow(unused, non_snake_case, clippy::all)]", "use crate::support::*;", "use zlink_core::Connection;", ""]
    ranges = []
    line = len(src) + 1
    for t in traits:
        if t["idx"] in skip:
            continue
        text = emit_trait(t)
        k = text.count("\n") + 1
        decl = "; ".join(decl_str(t, m) for m in t["methods"])
        ranges.append({"idx": t["idx"], "start": line, "end": line + k - 1, "decl": decl})
        src.append(text)
        line += k
    src.append("pub fn run_all(out: &mut Vec<String>) {\n" + "\n".join(f"    t{t['idx']}::run(out);" for t in traits if t["idx"] not in skip) + "\n}")
    text = "\n".join(src) + "\n"
    try:
        same = open(path).read() == text
    except OSError:
        same = False
    if not same:
        open(path, "w").write(text)
    import json
    open(os.path.join(os.path.dirname(path), "gen_proxy.lines.json"), "w").write(json.dumps(ranges))

if __name__ == "__main__":
    main()
