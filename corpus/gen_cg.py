#!/usr/bin/env python3
"""Generator of the codegen corpus (C15).

    gen_cg.py <seed> <n> <idl-dir> <src-dir>

writes `<idl-dir>/<i>.idl` (the interface descriptions handed to `zlink_codegen::generate_interface` by the
stage-A binary `zvg`, which writes `<src-dir>/gencg/m<i>.rs`), the exercise modules `<src-dir>/gencg/x<i>.rs`
and `<src-dir>/gen_cg.rs` (module list + `run_all`).

Interfaces are random over the grammar: non-recursive custom types, collision-free names (after the
conversions the generator applies), name alphabets with acronyms (GetURL), digits (Get2FA), camelCase and
snake_case, upper-case initials in field / variant names, and Rust keywords. The exercise code only
needs the *Rust* spellings to call what was generated; they are recomputed here with a port of heck
(validated against heck itself on every run by `bin/props.py`). Everything that is compared - frames,
re-serialised decoded values - is spelled from the IDL tree only."""
import sys, os, random, re, json

KEYWORDS = ["abstract", "as", "async", "await", "become", "box", "break", "const", "continue", "crate", "do", "dyn", "else", "enum", "extern", "false", "final", "fn", "for", "gen", "if", "impl", "in", "let", "loop", "macro", "match", "mod", "move", "mut", "override", "priv", "pub", "ref", "return", "self", "Self", "static", "struct", "super", "trait", "true", "try", "type", "typeof", "unsafe", "unsized", "use", "virtual", "where", "while", "yield"]
NOT_RAW = ["self", "Self", "super", "crate"]

# ------------------------------------------------------------------------------------------- heck port

def heck_words(s):
    out = []
    for word in re.split(r"[^0-9A-Za-z]", s):
        init = 0
        mode = "B"
        n = len(word)
        for i, c in enumerate(word):
            if i + 1 < n:
                nxt = word[i + 1]
                next_mode = "L" if c.islower() else ("U" if c.isupper() else mode)
                if next_mode == "L" and nxt.isupper():
                    out.append(word[init:i + 1]); init = i + 1; mode = "B"
                elif mode == "U" and c.isupper() and nxt.islower():
                    out.append(word[init:i]); init = i; mode = "B"
                else:
                    mode = next_mode
            else:
                out.append(word[init:])
    return out

def snake(s): return "_".join(w.lower() for w in heck_words(s))
def pascal(s): return "".join(w[0].upper() + w[1:].lower() for w in heck_words(s))

# ------------------------------------------------------------------------------------------ name pools

METHOD_NAMES = ["Self", "Try", "Super", "Ping", "GetURL", "Get2FA", "GetInfo", "IOList", "X", "Type", "ListAll", "SetV2Config", "HTTPServerStart", "Resolve", "Match", "Async", "Q9", "GetIPv6Addr", "ABc", "Loop", "Monitor", "DoIt"]
FIELD_NAMES = ["try", "yield", "box", "super", "crate", "hostName", "theURL", "user_id", "x", "type", "match", "n2", "a_b", "ID", "iPv6Addr", "Value", "is2FA", "name", "flags", "async", "fn", "count", "Items", "self", "ifIndex", "HTTPCode", "in", "r_2", "q"]
VARIANT_NAMES = ["idle", "Busy", "IPv4", "IPv6", "unspec", "not_set", "in_progress", "a", "type", "HTTP2", "ok", "Off", "match", "x9", "camelCase", "Self", "v_1"]
# enums whose values are ALL lower snake_case, some with a segment that starts with a digit (heck drops that
# boundary: sha_256 -> Sha256 -> sha256), so that a generator which derives the wire spelling from the Rust
# identifier instead of pinning it is exposed
SNAKE_VARIANT_NAMES = ["idle", "busy", "in_progress", "sha_1", "sha_256", "sha3_512", "v_2", "utf_8", "md5", "not_set", "x9", "a_b_c", "r_2d2", "blake2b", "type", "match"]
TYPE_NAMES = ["Self", "Person", "MyURL", "IOStat", "T2", "Config", "Type", "Family", "HTTPHeader", "X", "Rec9", "State", "Match"]
ERROR_NAMES = ["Self", "NotFound", "NotOK", "IOError", "E2BIG", "Busy", "Type", "InvalidURL", "X", "No2FA", "Failed", "Match"]
IFACE_LAST = ["9p", "self", "Ping", "ping", "myService", "FTL", "x2y", "foo-bar", "Machine", "io", "HTTPd", "a"]

# grammar-driven names: word pieces (lower word, Capitalised word, ACRONYM, digits) glued directly or with a single
# underscore, so that every class the name grammars allow turns up (`hashSha_256`, `maxAge_2`, `x_Y9`, `aB_c`), not
# only the hand-picked ones above
_LOW = ["a", "id", "max", "hash", "user", "x", "ip", "url", "age", "sha", "is", "fa", "v", "name"]
_DIG = ["2", "9", "256", "3", "64", "0"]
def _piece(rng, first):
    k = rng.randint(0, 3 if not first else 2)
    w = rng.choice(_LOW)
    if k == 0: return w
    if k == 1: return w[0].upper() + w[1:]
    if k == 2: return w.upper()
    return rng.choice(_DIG)
def gram_field_name(rng):
    # [A-Za-z](_?[A-Za-z0-9])*
    out = _piece(rng, True)
    for _ in range(rng.randint(0, 3)):
        out += ("_" if rng.random() < 0.4 else "") + _piece(rng, False)
    return out
def gram_type_name(rng):
    # [A-Z][A-Za-z0-9]*
    out = _piece(rng, True)
    out = out[0].upper() + out[1:]
    for _ in range(rng.randint(0, 3)):
        out += _piece(rng, False)
    return out
def harvested_names():
    """identifiers bound inside the proxy macro's own source: an IDL parameter of the same name must still be sent
    under its name with the caller's value"""
    import glob, re
    names = set()
    for f in glob.glob("/repo/zlink-macros/src/proxy/*.rs") + ["/repo/zlink-macros/src/proxy.rs"]:
        try:
            src = open(f).read()
        except OSError:
            continue
        for m in re.finditer(r"\blet\s+(?:mut\s+)?([a-z][a-z0-9_]*)\b", src): names.add(m.group(1))
    names |= {"method", "parameters", "params", "call", "reply", "connection", "conn", "result", "error", "out", "value", "this", "buf", "stream", "chain"}
    return sorted(n for n in names if re.fullmatch(r"[a-z](_?[a-z0-9])*", n))

HARVESTED = harvested_names()
LOCALS = ["method", "parameters", "params", "call", "reply", "connection", "conn", "result", "out", "value", "chain", "stream"]

def with_gram(rng, pool, gen, k=6):
    return pool + [gen(rng) for _ in range(k)]

def rstr(rng):
    return "".join(rng.choice("abcxyzQR7 _-./:") for _ in range(rng.randint(0, 8)))

# ------------------------------------------------------------------------------------------ generation

def gen_type(rng, customs, depth=0, allow_opt=True):
    """customs: list of already declared custom type dicts."""
    r = rng.random()
    if depth >= 3 or r < 0.45:
        return (rng.choice(["bool", "int", "float", "string", "string", "int", "object"]),)
    if r < 0.55 and allow_opt:
        return ("opt", gen_type(rng, customs, depth + 1, False))
    if r < 0.67:
        return ("array", gen_type(rng, customs, depth + 1))
    if r < 0.75:
        return ("map", gen_type(rng, customs, depth + 1))
    if r < 0.92 and customs:
        return ("custom", rng.choice(customs)["name"])
    if r < 0.96:
        return ("struct", gen_fields(rng, customs, depth + 1, 1, 3))
    return ("enum", pick_names(rng, SNAKE_VARIANT_NAMES if rng.random() < 0.35 else with_gram(rng, VARIANT_NAMES, gram_field_name, 4), rng.randint(1, 3), snake_unique=False))

def pick_names(rng, pool, n, snake_unique=True, conv=snake):
    out, seen = [], set()
    for _ in range(n * 4):
        if len(out) == n:
            break
        x = rng.choice(pool)
        k = conv(x) if snake_unique else x
        if k in seen:
            continue
        seen.add(k)
        out.append(x)
    return out

def gen_fields(rng, customs, depth, lo, hi):
    names = pick_names(rng, with_gram(rng, FIELD_NAMES, gram_field_name, 10) + [rng.choice(HARVESTED) for _ in range(8)], rng.randint(lo, hi))
    return [(n, gen_type(rng, customs, depth)) for n in names]

def gen_iface(rng, i):
    last = rng.choice(IFACE_LAST)
    name = rng.choice(["org.ex", "io.systemd", "com.example.sub-dom"]) + "." + last
    trait = pascal(last)
    trait = ("_" + trait) if trait[0].isdigit() else rident(trait)
    used = {trait, trait + "Error"}
    customs, methods, errors = [], [], []
    member_names = set()
    for tn in pick_names(rng, with_gram(rng, TYPE_NAMES, gram_type_name, 4), rng.randint(0, 3), conv=pascal):
        # collision-free means: free of collisions among the identifiers the generator emits (a type `Self` is
        # emitted as `Self_`, which is also what the trait of an interface `....self` is called)
        if pascal(tn) in used or rident(pascal(tn)) in used:
            continue
        used.add(pascal(tn))
        used.add(rident(pascal(tn)))
        member_names.add(tn)
        if rng.random() < 0.35:
            vs = pick_names(rng, SNAKE_VARIANT_NAMES if rng.random() < 0.35 else with_gram(rng, VARIANT_NAMES, gram_field_name, 4), rng.randint(1, 4), conv=pascal)
            customs.append(dict(kind="enum", name=tn, variants=vs))
        else:
            customs.append(dict(kind="object", name=tn, fields=gen_fields(rng, customs, 0, 1, 4)))
    for mn in pick_names(rng, with_gram(rng, METHOD_NAMES, gram_type_name, 6), rng.randint(1, 4)):
        if mn in member_names:
            continue
        member_names.add(mn)
        outs = gen_fields(rng, customs, 0, 0, 3)
        if outs:
            if pascal(mn) + "Output" in used:
                continue
            used.add(pascal(mn) + "Output")
        ins = gen_fields(rng, customs, 0, 0, 3)
        # one method in three also takes a parameter named like something the generated code itself binds
        # (`method`, `parameters`, `call`, `connection` ...): it must still be sent under its name with the caller's value
        if rng.random() < 0.35:
            nm = rng.choice(LOCALS)
            if all(snake(nm) != snake(x) for x, _ in ins):
                ins.append((nm, gen_type(rng, customs, 1)))
        methods.append(dict(name=mn, ins=ins, outs=outs))
    for en in pick_names(rng, with_gram(rng, ERROR_NAMES, gram_type_name, 4), rng.randint(0, 3), conv=pascal):
        if en in member_names:
            continue
        member_names.add(en)
        errors.append(dict(name=en, fields=gen_fields(rng, customs, 0, 0, 2)))
    members = [("type", c) for c in customs] + [("method", m) for m in methods] + [("error", e) for e in errors]
    # members may come in any order in the description; custom types may be used before they are declared
    rng.shuffle(members)
    # indices in the case lines follow the order of the text
    customs = [m for k, m in members if k == "type"]
    methods = [m for k, m in members if k == "method"]
    errors = [m for k, m in members if k == "error"]
    return dict(idx=i, name=name, trait=trait, customs=customs, methods=methods, errors=errors, members=members)

# -------------------------------------------------------------------------------------------- rendering

def r_type(t):
    k = t[0]
    if k in ("bool", "int", "float", "string", "object"): return k
    if k == "opt": return "?" + r_type(t[1])
    if k == "array": return "[]" + r_type(t[1])
    if k == "map": return "[string]" + r_type(t[1])
    if k == "custom": return t[1]
    if k == "struct": return "(" + ", ".join(f"{n}: {r_type(x)}" for n, x in t[1]) + ")"
    if k == "enum": return "(" + ", ".join(t[1]) + ")"
    raise ValueError(t)

def r_fields(fs): return "(" + ", ".join(f"{n}: {r_type(t)}" for n, t in fs) + ")"

def r_iface(f):
    o = [f"interface {f['name']}"]
    for kind, m in f["members"]:
        if kind == "type":
            o.append(f"type {m['name']} " + (r_fields(m["fields"]) if m["kind"] == "object" else "(" + ", ".join(m["variants"]) + ")"))
        elif kind == "method":
            o.append(f"method {m['name']}{r_fields(m['ins'])} -> {r_fields(m['outs'])}")
        else:
            o.append(f"error {m['name']} {r_fields(m['fields'])}")
    return "\n\n".join(o) + "\n"

# ----------------------------------------------------------------------------------------------- values

FLOATS = ["0.5", "-2.25", "3.0", "100.125"]

def gen_value(rng, f, t, depth=0, in_value=False):
    """in_value: inside an inline struct, which the generated code holds as a serde_json::Value - its
    objects are re-serialised in byte order of the keys, so they are generated in that order"""
    k = t[0]
    if k == "bool": return rng.random() < 0.5
    if k == "int": return rng.choice([0, -1, 7, rng.randint(-10**6, 10**6), rng.randint(-2**63, 2**63 - 1)])
    if k == "float": return ("float", rng.choice(FLOATS))
    if k == "string": return rstr(rng)
    if k == "object": return rng.choice([("json", {"k": 1}), ("json", 5), ("json", "s"), ("json", [True, None])])
    if k == "opt": return None if rng.random() < 0.4 else gen_value(rng, f, t[1], depth + 1, in_value)
    if k == "array": return [gen_value(rng, f, t[1], depth + 1, in_value) for _ in range(rng.randint(0, 2))]
    if k == "map": return ("map", [] if rng.random() < 0.4 else [(rng.choice(["k", "key2", "Z"]), gen_value(rng, f, t[1], depth + 1, in_value))])
    if k == "custom":
        c = next(c for c in f["customs"] if c["name"] == t[1])
        if c["kind"] == "enum": return ("variant", rng.choice(c["variants"]))
        fs = [(n, gen_value(rng, f, x, depth + 1, in_value)) for n, x in c["fields"]]
        return ("obj", sorted(fs, key=lambda p: p[0].encode()) if in_value else fs)
    if k == "struct":
        return ("obj", sorted([(n, gen_value(rng, f, x, depth + 1, True)) for n, x in t[1]], key=lambda p: p[0].encode()))
    if k == "enum": return ("variant", rng.choice(t[1]))
    raise ValueError(t)

def hexs(s): return s.encode().hex() or "-"

def sexpr(v):
    """the JSON value the IDL prescribes, in the line protocol's notation"""
    if v is None: return "n"
    if v is True: return "T"
    if v is False: return "F"
    if isinstance(v, int): return "#" + hexs(str(v))
    if isinstance(v, str): return "s" + hexs(v)
    if isinstance(v, list): return "[" + ",".join(sexpr(x) for x in v) + "]"
    tag, x = v
    if tag == "float": return "#" + hexs(x)
    if tag == "json": return sexpr_json(x)
    if tag == "map": return "{" + ",".join(hexs(k) + ":" + sexpr(y) for k, y in x) + "}"
    if tag == "variant": return "s" + hexs(x)
    if tag == "obj": return "{" + ",".join(hexs(k) + ":" + sexpr(y) for k, y in x) + "}"
    raise ValueError(v)

def sexpr_json(x):
    if x is None: return "n"
    if x is True: return "T"
    if x is False: return "F"
    if isinstance(x, int): return "#" + hexs(str(x))
    if isinstance(x, str): return "s" + hexs(x)
    if isinstance(x, list): return "[" + ",".join(sexpr_json(y) for y in x) + "]"
    return "{" + ",".join(hexs(k) + ":" + sexpr_json(y) for k, y in x.items()) + "}"

def jtext(v):
    """the same value as compact JSON text (the reply frames fed to the generated client)"""
    if v is None: return "null"
    if v is True: return "true"
    if v is False: return "false"
    if isinstance(v, int): return str(v)
    if isinstance(v, str): return json.dumps(v)
    if isinstance(v, list): return "[" + ",".join(jtext(x) for x in v) + "]"
    tag, x = v
    if tag == "float": return x
    if tag == "json": return json.dumps(x, separators=(",", ":"))
    if tag in ("map", "obj"): return "{" + ",".join(json.dumps(k) + ":" + jtext(y) for k, y in x) + "}"
    if tag == "variant": return json.dumps(x)
    raise ValueError(v)

# ------------------------------------------------------------------------------- Rust spellings and exprs

def rident(s):
    """how codegen spells an identifier derived from `s` (already case-converted)"""
    if s in NOT_RAW: return s + "_"
    return ("r#" + s) if s in KEYWORDS else s

def tident(s): return rident(pascal(s))

def rs_str(s): return json.dumps(s)

def rs_json(x): return "jv(" + raw(json.dumps(x, separators=(",", ":"))) + ")"

def expr_owned(f, t, v):
    k = t[0]
    if k == "bool": return "true" if v else "false"
    if k == "int": return f"{v}i64" if v > -2**63 else "i64::MIN"
    if k == "float": return v[1] + "f64"
    if k == "string": return f"String::from({rs_str(v)})"
    if k == "object": return rs_json(v[1])
    if k == "opt": return "None" if v is None else f"Some({expr_owned(f, t[1], v)})"
    if k == "array": return "vec![" + ", ".join(expr_owned(f, t[1], x) for x in v) + "]"
    if k == "map": return "std::collections::HashMap::from([" + ", ".join(f"(String::from({rs_str(a)}), {expr_owned(f, t[1], b)})" for a, b in v[1]) + "])"
    if k == "custom":
        c = next(c for c in f["customs"] if c["name"] == t[1])
        if c["kind"] == "enum": return f"{tident(c['name'])}::{tident(v[1])}"
        return tident(c["name"]) + " { " + ", ".join(f"{rident(snake(n))}: {expr_owned(f, x, y)}" for (n, x), (_, y) in zip(c["fields"], v[1])) + " }"
    if k == "struct": return rs_json(untag(v))
    if k == "enum": return f"String::from({rs_str(v[1])})"
    raise ValueError(t)

def untag(v):
    if v is None or isinstance(v, (bool, int, str)): return v
    if isinstance(v, list): return [untag(x) for x in v]
    tag, x = v
    if tag == "float": return float(x)
    if tag == "json": return x
    if tag in ("map", "obj"): return {k: untag(y) for k, y in x}
    if tag == "variant": return x
    raise ValueError(v)

def expr_elem(f, t, v):
    """element position inside a parameter collection (`type_to_rust_param_elem`)"""
    k = t[0]
    if k == "string": return rs_str(v)
    if k == "enum": return rs_str(v[1])
    if k == "opt": return "None" if v is None else f"Some({expr_elem(f, t[1], v)})"
    if k == "array": return "vec![" + ", ".join(expr_elem(f, t[1], x) for x in v) + "]"
    if k == "map": return "std::collections::HashMap::from([" + ", ".join(f"({rs_str(a)}, {expr_elem(f, t[1], b)})" for a, b in v[1]) + "])"
    return expr_owned(f, t, v)

def expr_param(f, t, v):
    k = t[0]
    if k == "string": return rs_str(v)
    if k == "enum": return rs_str(v[1])
    if k in ("object", "struct"): return "&" + expr_owned(f, t, v)
    if k == "opt": return "None" if v is None else f"Some({expr_param(f, t[1], v)})"
    if k == "array": return "&[" + ", ".join(expr_elem(f, t[1], x) for x in v) + "]"
    if k == "map": return "&std::collections::HashMap::from([" + ", ".join(f"({rs_str(a)}, {expr_elem(f, t[1], b)})" for a, b in v[1]) + "])"
    if k == "custom": return "&" + expr_owned(f, t, v)
    return expr_owned(f, t, v)

# -------------------------------------------------------------------------------------------- exercise

def raw(s): return 'r####"' + s + '"####'

def emit_exercise(rng, f):
    i = f["idx"]
    idl = r_iface(f)
    H = hexs(idl)
    o = [f"// GENERATED by /verif/corpus/gen_cg.py - exercise of the code generated for {f['name']}",
         "#![allow(unused, non_snake_case, non_camel_case_types, clippy::all)]",
         "use crate::support::*;", "use zlink::Connection;", f"use super::m{i}::*;", "",
         "pub fn run(out: &mut Vec<String>) {"]
    for mi, m in enumerate(f["methods"]):
        call = rident(snake(m["name"]))
        out_ty = (pascal(m["name"]) + "Output") if m["outs"] else "()"
        for rep in range(2):
            vals = [gen_value(rng, f, t) for _, t in m["ins"]]
            args = ", ".join(expr_param(f, t, v) for (_, t), v in zip(m["ins"], vals))
            a = " ".join(sexpr(v) for v in vals) or "-"
            ovals = [(n, gen_value(rng, f, t)) for n, t in m["outs"]]
            with_params = bool(ovals) or rng.random() < 0.5
            reply = "{" + ('"parameters":{' + ",".join(json.dumps(n) + ":" + jtext(v) for n, v in ovals) + "}" if with_params else "") + "}"
            ov = "{" + ",".join(hexs(n) + ":" + sexpr(v) for n, v in ovals) + "}"
            o.append("    {")
            o.append("        let net = new_net(vec![]);")
            o.append("        let mut conn = Connection::new(SSocket(net.clone()));")
            o.append(f"        push_frames(&net, &[{raw(reply)}]);")
            o.append(f"        let r = block_on(conn.{call}({args}));")
            o.append(f"        out.push(format!(\"{{}} => {{}}\", {raw(f'cgcall {H} M {mi} A {a}')}, written(&net)));")
            o.append(f"        out.push(format!(\"{{}} => {{}}\", {raw(f'cgreply {H} M {mi} R {1 if with_params else 0} V {ov}')}, reser(r)));")
            o.append("    }")
        # every declared error, delivered as the reply to this method
        if mi == 0:
            for ei, e in enumerate(f["errors"]):
                evals = [(n, gen_value(rng, f, t)) for n, t in e["fields"]]
                params = "{" + ",".join(json.dumps(n) + ":" + jtext(v) for n, v in evals) + "}"
                reply = '{"error":"' + f["name"] + "." + e["name"] + '"' + (',"parameters":' + params if evals or rng.random() < 0.5 else "") + "}"
                ev = "{" + ",".join(hexs(n) + ":" + sexpr(v) for n, v in evals) + "}"
                args = ", ".join(expr_param(f, t, gen_value(rng, f, t)) for _, t in m["ins"])
                o.append("    {")
                o.append("        let net = new_net(vec![]);")
                o.append("        let mut conn = Connection::new(SSocket(net.clone()));")
                o.append(f"        push_frames(&net, &[{raw(reply)}]);")
                o.append(f"        let r = block_on(conn.{call}({args}));")
                o.append(f"        out.push(format!(\"{{}} => {{}}\", {raw(f'cgerr {H} E {ei} V {ev}')}, reser_err(r)));")
                o.append("    }")
    # every custom type, decoded from the IDL's spelling and encoded again
    for ci, c in enumerate(f["customs"]):
        for rep in range(2):
            v = gen_value(rng, f, ("custom", c["name"]))
            o.append(f"    out.push(format!(\"{{}} => {{}}\", {raw(f'cgtype {H} T {ci} V {sexpr(v)}')}, reser_json::<{tident(c['name'])}>({raw(jtext(v))})));")
            o.append(f"    out.push(format!(\"{{}} => {{}}\", {raw(f'cgenc {H} T {ci} V {sexpr(v)}')}, enc_json(&{expr_owned(f, ('custom', c['name']), v)})));")
    o.append("}")
    return idl, "\n".join(o) + "\n"

def write_if_changed(path, text):
    try:
        if open(path).read() == text:
            return
    except OSError:
        pass
    open(path, "w").write(text)

def corpus(seed, n):
    rng = random.Random(seed * 104729 + 71)
    return rng, [gen_iface(rng, i) for i in range(n)]

def main():
    seed, n, idl_dir, src_dir = int(sys.argv[1]), int(sys.argv[2]), sys.argv[3], sys.argv[4]
    skip = set(int(x) for x in sys.argv[5].split(",")) if len(sys.argv) > 5 and sys.argv[5] else set()
    rng, ifaces = corpus(seed, n)
    os.makedirs(idl_dir, exist_ok=True)
    os.makedirs(os.path.join(src_dir, "gencg"), exist_ok=True)
    for fn in os.listdir(idl_dir):
        if fn.endswith(".idl") and int(fn[:-4]) >= n:
            os.remove(os.path.join(idl_dir, fn))
    for fn in os.listdir(os.path.join(src_dir, "gencg")):
        if int(fn[1:-3]) >= n:
            os.remove(os.path.join(src_dir, "gencg", fn))
    mods = ["// GENERATED by /verif/corpus/gen_cg.py - do not edit.", "#![allow(unused, non_snake_case, non_camel_case_types, clippy::all)]"]
    names = []
    for f in ifaces:
        idl, ex = emit_exercise(rng, f)
        write_if_changed(os.path.join(idl_dir, f"{f['idx']}.idl"), idl)
        write_if_changed(os.path.join(src_dir, "gencg", f"x{f['idx']}.rs"), ex)
        names += [f["name"]] + [m["name"] for m in f["methods"]]
        if f["idx"] in skip:
            continue
        mods.append(f"#[path = \"gencg/m{f['idx']}.rs\"] pub mod m{f['idx']};")
        mods.append(f"#[path = \"gencg/x{f['idx']}.rs\"] pub mod x{f['idx']};")
    mods.append("pub fn run_all(out: &mut Vec<String>) {")
    mods += [f"    x{f['idx']}::run(out);" for f in ifaces if f["idx"] not in skip]
    mods.append("}")
    write_if_changed(os.path.join(src_dir, "gen_cg.rs"), "\n".join(mods) + "\n")

if __name__ == "__main__":
    main()
