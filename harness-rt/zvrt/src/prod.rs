//! Scenario `prod` (C17, production build): the inbound limit as compiled without the verification
//! hook. A generated socket delivers one call frame of a chosen wire size (terminator included) in
//! chunks; the observation is what `receive_call` reports.
//!
//!   rxprod N <wire size> T <0|1 terminated> CH <chunk> => ok <data length> | overflow | eof | other:<..>
use crate::*;
use serde::Deserialize;
use zlink_core::connection::socket::{ReadHalf, Socket, WriteHalf};
use zlink_core::Connection;

#[derive(Debug)]
struct Gen {
    /// bytes of the frame still to deliver (without terminator)
    head: Vec<u8>,
    fill: usize,
    tail: Vec<u8>,
    terminated: bool,
    chunk: usize,
    pos: usize,
}
#[derive(Debug)]
struct Sink;
#[derive(Debug)]
struct GenSocket(Gen);

impl ReadHalf for Gen {
    async fn read(&mut self, buf: &mut [u8]) -> zlink_core::Result<usize> {
        let total = self.head.len() + self.fill + self.tail.len() + usize::from(self.terminated);
        let n = buf.len().min(self.chunk).min(total - self.pos);
        for (k, b) in buf[..n].iter_mut().enumerate() {
            let p = self.pos + k;
            *b = if p < self.head.len() {
                self.head[p]
            } else if p < self.head.len() + self.fill {
                b'a'
            } else if p < self.head.len() + self.fill + self.tail.len() {
                self.tail[p - self.head.len() - self.fill]
            } else {
                0
            };
        }
        self.pos += n;
        Ok(n)
    }
}
impl WriteHalf for Sink {
    async fn write(&mut self, _buf: &[u8]) -> zlink_core::Result<()> {
        Ok(())
    }
}
impl Socket for GenSocket {
    type ReadHalf = Gen;
    type WriteHalf = Sink;
    fn split(self) -> (Gen, Sink) {
        (self.0, Sink)
    }
}

#[derive(Debug, Deserialize)]
#[serde(tag = "method", content = "parameters")]
enum M {
    #[serde(rename = "org.ex.Blob")]
    Blob { data: String },
}

fn run(wire: usize, terminated: bool, chunk: usize) -> String {
    let head = br#"{"method":"org.ex.Blob","parameters":{"data":""#.to_vec();
    let tail = br#""}}"#.to_vec();
    let fixed = head.len() + tail.len() + usize::from(terminated);
    let g = Gen { head, fill: wire - fixed, tail, terminated, chunk, pos: 0 };
    let mut conn = Connection::new(GenSocket(g));
    let r = async_io::block_on(async { conn.receive_call::<M>().await.map(|c| match c.method() { M::Blob { data } => data.len() }) });
    match r {
        Ok(n) => format!("ok {n}"),
        Err(zlink_core::Error::BufferOverflow) => "overflow".into(),
        Err(zlink_core::Error::UnexpectedEof) => "eof".into(),
        Err(e) => format!("other:{}", format!("{e:?}").split(|c: char| !c.is_alphanumeric()).next().unwrap_or("")),
    }
}

pub fn main(o: &Opts) {
    // the limit is read from the build under test through its observable behaviour only; the sizes
    // are chosen around the value the extractor reads from the source (passed by the orchestrator)
    let limit: usize = std::env::var("ZLINK_PROD_LIMIT").ok().and_then(|v| v.parse().ok()).unwrap_or(100 * 1024 * 1024);
    let mut em = Emitter { only: o.index, n: 0 };
    let mut cases: Vec<(usize, bool, usize)> = vec![(10 * 1024 * 1024, true, 65536), (limit - 1, true, 1 << 20), (limit, true, 1 << 20), (limit + 1, true, 4096), (limit + (1 << 20), false, 1 << 20)];
    if o.thorough() {
        cases.extend([(limit - 2, true, 255), (limit - 257, true, 257), (limit + 255, true, 1 << 16), (limit / 2 + 1, true, 1 << 12), (limit * 2, false, 1 << 22)]);
    }
    for (wire, t, ch) in cases {
        em.case(|| vec![format!("rxprod N {wire} T {} CH {ch} => {}", u8::from(t), run(wire, t, ch))]);
    }
}
