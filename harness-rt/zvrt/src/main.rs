//! `zvrt <scenario> [--tier ..] [--seed N] [--index I]`: scenarios on the runtime crates
//! (zlink-tokio, zlink-smol): `notified` (C20), `unix` (C19).
mod notified;
mod prod;
mod unix;

pub struct Opts {
    pub tier: String,
    pub seed: u64,
    pub index: Option<usize>,
}
impl Opts {
    pub fn thorough(&self) -> bool {
        self.tier == "thorough"
    }
}

/// SplitMix64
#[derive(Clone)]
pub struct Rng(pub u64);
impl Rng {
    pub fn new(seed: u64) -> Self {
        Rng(seed.wrapping_mul(0x9E3779B97F4A7C15) ^ 0xD1B54A32D192ED03)
    }
    pub fn next(&mut self) -> u64 {
        self.0 = self.0.wrapping_add(0x9E3779B97F4A7C15);
        let mut z = self.0;
        z = (z ^ (z >> 30)).wrapping_mul(0xBF58476D1CE4E5B9);
        z = (z ^ (z >> 27)).wrapping_mul(0x94D049BB133111EB);
        z ^ (z >> 31)
    }
    pub fn below(&mut self, n: usize) -> usize {
        if n == 0 { 0 } else { (self.next() % n as u64) as usize }
    }
    pub fn range(&mut self, lo: usize, hi: usize) -> usize {
        lo + self.below(hi - lo + 1)
    }
    pub fn chance(&mut self, num: usize, den: usize) -> bool {
        self.below(den) < num
    }
}

pub struct Emitter {
    pub only: Option<usize>,
    pub n: usize,
}
impl Emitter {
    pub fn case(&mut self, f: impl FnOnce() -> Vec<String>) {
        let i = self.n;
        self.n += 1;
        if self.only.map_or(true, |o| o == i) {
            match std::panic::catch_unwind(std::panic::AssertUnwindSafe(f)) {
                Ok(ls) => {
                    for l in ls {
                        println!("{l}");
                    }
                }
                Err(e) => {
                    let msg = e.downcast_ref::<String>().cloned().or_else(|| e.downcast_ref::<&str>().map(|s| s.to_string())).unwrap_or_else(|| "?".into());
                    println!("panic index={i} {}", msg.replace('\n', " "));
                }
            }
        }
    }
}

fn main() {
    std::panic::set_hook(Box::new(|_| {}));
    let args: Vec<String> = std::env::args().collect();
    let scenario = args.get(1).cloned().unwrap_or_default();
    let mut o = Opts { tier: "quick".into(), seed: 1, index: None };
    let mut i = 2;
    while i < args.len() {
        let v = args.get(i + 1).cloned().unwrap_or_default();
        match args[i].as_str() {
            "--tier" => { o.tier = v; i += 1; }
            "--seed" => { o.seed = v.parse().unwrap_or(1); i += 1; }
            "--index" => { o.index = v.parse().ok(); i += 1; }
            _ => {}
        }
        i += 1;
    }
    match scenario.as_str() {
        "notified" => notified::main(&o),
        "unix" => unix::main(&o),
        "prod" => prod::main(&o),
        other => {
            eprintln!("unknown scenario {other}");
            std::process::exit(2);
        }
    }
}
