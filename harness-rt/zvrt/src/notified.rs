//! Scenario `notified` (C20): the same history of `set` / subscribe / poll operations on
//! `zlink_tokio::notified::State` and `zlink_smol::notified::State`, polled by hand.
//!
//! Line: `notif O <op>* => T <k>:<item>* ; S <k>:<item>*`  ops: `s<v>` set, `n` new subscriber,
//! `p<k>` poll subscriber k once, `d<k>` drop subscriber k. items: `pend`, `i<v>:<0|1>` (value, continues), `end`;
//! after a `set`, `<k>:woke|asleep` for every subscriber k whose last poll was pending (its waker must have fired).
//! One-shot: `once <script> => T <items> ; S <items>` scripts over `P` poll, `N<v>` notify, `D` drop notifier.

use crate::*;
use futures_util::Stream;
use std::{
    pin::Pin,
    task::{Context, Poll, RawWaker, RawWakerVTable, Waker},
};

fn noop_raw() -> RawWaker {
    fn clone(_: *const ()) -> RawWaker { noop_raw() }
    fn noop(_: *const ()) {}
    static VT: RawWakerVTable = RawWakerVTable::new(clone, noop, noop, noop);
    RawWaker::new(core::ptr::null(), &VT)
}
fn waker() -> Waker { unsafe { Waker::from_raw(noop_raw()) } }

/// A waker that records that it was used: one per subscriber, so that "a parked subscriber is woken by the
/// next `set`" (without which a task awaiting the stream never sees the value) becomes an observation.
struct Flag(std::sync::atomic::AtomicBool);
impl std::task::Wake for Flag {
    fn wake(self: std::sync::Arc<Self>) {
        self.0.store(true, std::sync::atomic::Ordering::SeqCst);
    }
    fn wake_by_ref(self: &std::sync::Arc<Self>) {
        self.0.store(true, std::sync::atomic::Ordering::SeqCst);
    }
}
#[derive(Clone)]
struct Sub {
    flag: std::sync::Arc<Flag>,
    parked: bool,
}
impl Sub {
    fn new() -> Self {
        Sub { flag: std::sync::Arc::new(Flag(std::sync::atomic::AtomicBool::new(false))), parked: false }
    }
}
/// after a `set`: every subscriber whose last poll was pending must have been woken
fn wake_report(meta: &mut [Option<Sub>], out: &mut Vec<String>) {
    for (k, m) in meta.iter_mut().enumerate() {
        if let Some(m) = m {
            if m.parked {
                let woke = m.flag.0.swap(false, std::sync::atomic::Ordering::SeqCst);
                out.push(format!("{k}:{}", if woke { "woke" } else { "asleep" }));
                m.parked = false;
            }
        }
    }
}
fn poll_sub<S: Stream<Item = zlink_core::Reply<u32>> + Unpin>(s: &mut S, m: &mut Sub) -> String {
    m.flag.0.store(false, std::sync::atomic::Ordering::SeqCst);
    let w = Waker::from(m.flag.clone());
    let mut cx = Context::from_waker(&w);
    let r = match Pin::new(s).poll_next(&mut cx) {
        Poll::Pending => "pend".to_string(),
        Poll::Ready(None) => "end".into(),
        Poll::Ready(Some(r)) => format!("i{}:{}", r.parameters().copied().unwrap_or(999_999), match r.continues() { Some(true) => "1", Some(false) => "0", None => "n" }),
    };
    m.parked = r == "pend";
    r
}

fn poll_stream<S: Stream<Item = zlink_core::Reply<u32>> + Unpin>(s: &mut S) -> String {
    let w = waker();
    let mut cx = Context::from_waker(&w);
    match Pin::new(s).poll_next(&mut cx) {
        Poll::Pending => "pend".into(),
        Poll::Ready(None) => "end".into(),
        Poll::Ready(Some(r)) => format!("i{}:{}", r.parameters().copied().unwrap_or(999_999), match r.continues() { Some(true) => "1", Some(false) => "0", None => "n" }),
    }
}

fn block<F: std::future::Future>(f: F) -> F::Output {
    let mut f = Box::pin(f);
    let w = waker();
    let mut cx = Context::from_waker(&w);
    for _ in 0..1000 {
        if let Poll::Ready(v) = f.as_mut().poll(&mut cx) {
            return v;
        }
    }
    panic!("set() stayed pending");
}

#[derive(Clone, Debug)]
pub enum Op { Set(u32), Sub, Poll(usize), Drop(usize), /// the last handle of the state is dropped
    Close,
    /// another handle of the state is made (`clone`); later `set`s go through the newest handle
    CloneState,
    /// the newest extra handle is dropped (the state itself lives on)
    DropClone }

fn run_tokio(ops: &[Op]) -> Vec<String> {
    let mut st = Some(zlink_tokio::notified::State::<u32, u32>::new(0));
    let mut clones: Vec<zlink_tokio::notified::State<u32, u32>> = vec![];
    let mut subs: Vec<Option<zlink_tokio::notified::Stream<u32>>> = vec![];
    let mut meta: Vec<Option<Sub>> = vec![];
    let mut out = vec![];
    for op in ops {
        match op {
            Op::Set(v) => {
                if let Some(st) = st.as_mut() {
                    // through the newest handle
                    match clones.last_mut() {
                        Some(c) => block(c.set(*v)),
                        None => block(st.set(*v)),
                    }
                    wake_report(&mut meta, &mut out);
                }
            }
            Op::CloneState => {
                if let Some(st) = st.as_ref() {
                    let c = clones.last().map(|c| c.clone()).unwrap_or_else(|| st.clone());
                    clones.push(c);
                }
            }
            Op::DropClone => {
                clones.pop();
            }
            Op::Sub => {
                if let Some(st) = st.as_mut() {
                    subs.push(Some(st.stream()));
                    meta.push(Some(Sub::new()));
                }
            }
            Op::Poll(k) => {
                if let (Some(Some(s)), Some(Some(m))) = (subs.get_mut(*k), meta.get_mut(*k)) {
                    let r = poll_sub(s, m);
                    let ended = r == "end";
                    out.push(format!("{k}:{r}"));
                    // a stream that has ended is not polled again
                    if ended {
                        subs[*k] = None;
                        meta[*k] = None;
                    }
                }
            }
            Op::Drop(k) => if let Some(s) = subs.get_mut(*k) { *s = None; meta[*k] = None },
            Op::Close => {
                clones.clear();
                if st.take().is_some() {
                    wake_report(&mut meta, &mut out);
                }
            }
        }
    }
    out
}
fn run_smol(ops: &[Op]) -> Vec<String> {
    let mut st = Some(zlink_smol::notified::State::<u32, u32>::new(0));
    let mut clones: Vec<zlink_smol::notified::State<u32, u32>> = vec![];
    let mut subs: Vec<Option<zlink_smol::notified::Stream<u32>>> = vec![];
    let mut meta: Vec<Option<Sub>> = vec![];
    let mut out = vec![];
    for op in ops {
        match op {
            Op::Set(v) => {
                if let Some(st) = st.as_mut() {
                    // through the newest handle
                    match clones.last_mut() {
                        Some(c) => block(c.set(*v)),
                        None => block(st.set(*v)),
                    }
                    wake_report(&mut meta, &mut out);
                }
            }
            Op::CloneState => {
                if let Some(st) = st.as_ref() {
                    let c = clones.last().map(|c| c.clone()).unwrap_or_else(|| st.clone());
                    clones.push(c);
                }
            }
            Op::DropClone => {
                clones.pop();
            }
            Op::Sub => {
                if let Some(st) = st.as_mut() {
                    subs.push(Some(st.stream()));
                    meta.push(Some(Sub::new()));
                }
            }
            Op::Poll(k) => {
                if let (Some(Some(s)), Some(Some(m))) = (subs.get_mut(*k), meta.get_mut(*k)) {
                    let r = poll_sub(s, m);
                    let ended = r == "end";
                    out.push(format!("{k}:{r}"));
                    // a stream that has ended is not polled again
                    if ended {
                        subs[*k] = None;
                        meta[*k] = None;
                    }
                }
            }
            Op::Drop(k) => if let Some(s) = subs.get_mut(*k) { *s = None; meta[*k] = None },
            Op::Close => {
                clones.clear();
                if st.take().is_some() {
                    wake_report(&mut meta, &mut out);
                }
            }
        }
    }
    out
}

fn ops_str(ops: &[Op]) -> String {
    ops.iter().map(|o| match o { Op::Set(v) => format!("s{v}"), Op::Sub => "n".into(), Op::Poll(k) => format!("p{k}"), Op::Drop(k) => format!("d{k}"), Op::Close => "x".into(), Op::CloneState => "k".into(), Op::DropClone => "j".into() }).collect::<Vec<_>>().join(" ")
}

fn emit(em: &mut Emitter, ops: Vec<Op>) {
    em.case(|| {
        // each runtime separately under catch_unwind so that a panic in one is an observation
        let t = std::panic::catch_unwind(|| run_tokio(&ops)).map(|v| v.join(" ")).unwrap_or_else(|_| "PANIC".into());
        let s = std::panic::catch_unwind(|| run_smol(&ops)).map(|v| v.join(" ")).unwrap_or_else(|_| "PANIC".into());
        vec![format!("notif O {} => T {t} ; S {s}", ops_str(&ops))]
    });
}

pub fn main(o: &Opts) {
    let mut em = Emitter { only: o.index, n: 0 };
    let mut rng = Rng::new(o.seed ^ 0x6e6f7469);
    // exhaustive: all interleavings of k sets with polls of one subscriber created at any point
    let kmax = if o.thorough() { 6 } else { 4 };
    // histories over the alphabet {set, poll0, poll1, sub} of length <= L with <= kmax sets and <= 2 subs
    let len = if o.thorough() { 8 } else { 7 };
    fn rec(cur: &mut Vec<Op>, sets: usize, subs: usize, left: usize, kmax: usize, em: &mut Emitter, nextv: u32) {
        if !cur.is_empty() && matches!(cur.last(), Some(Op::Poll(_))) {
            emit(em, cur.clone());
        }
        if left == 0 { return; }
        if sets < kmax { cur.push(Op::Set(nextv)); rec(cur, sets + 1, subs, left - 1, kmax, em, nextv + 1); cur.pop(); }
        if subs < 2 { cur.push(Op::Sub); rec(cur, sets, subs + 1, left - 1, kmax, em, nextv); cur.pop(); }
        for k in 0..subs { cur.push(Op::Poll(k)); rec(cur, sets, subs, left - 1, kmax, em, nextv); cur.pop(); }
    }
    rec(&mut vec![], 0, 0, len, kmax, &mut em, 1);
    // random longer histories with up to 3 subscribers and drops
    let n = if o.thorough() { 60_000 } else { 3000 };
    for _ in 0..n {
        let l = rng.range(5, 40);
        let mut ops = vec![];
        let mut subs = 0;
        let mut v = 1;
        for _ in 0..l {
            match rng.below(10) {
                0..=3 => { ops.push(Op::Set(v)); v += 1; }
                4 if subs < 3 => { ops.push(Op::Sub); subs += 1; }
                5 if subs > 0 && rng.chance(1, 4) => ops.push(Op::Drop(rng.below(subs))),
                6 if rng.chance(1, 3) => ops.push(if rng.chance(1, 2) { Op::CloneState } else { Op::DropClone }),
                _ if subs > 0 => ops.push(Op::Poll(rng.below(subs))),
                _ => { ops.push(Op::Set(v)); v += 1; }
            }
        }
        // one history in three: the state then goes away (after 0..2 more sets nobody has polled for) and every
        // subscriber is polled until its stream ends
        if rng.chance(1, 3) {
            for _ in 0..rng.below(3) { ops.push(Op::Set(v)); v += 1; }
            ops.push(Op::Close);
            let mut order: Vec<usize> = (0..subs).collect();
            for i in (1..order.len()).rev() { order.swap(i, rng.below(i + 1)); }
            for k in order { ops.push(Op::Poll(k)); ops.push(Op::Poll(k)); if rng.chance(1, 3) { ops.push(Op::Poll(k)); } }
        }
        emit(&mut em, ops);
    }
    // the state dropped right after a set, for every small prefix: sub, (set | poll)*, set, close, poll, poll
    for code in 0..(1u32 << 4) {
        let mut ops = vec![Op::Sub];
        let mut v = 1;
        for b in 0..4 {
            if code & (1 << b) != 0 { ops.push(Op::Set(v)); v += 1; } else { ops.push(Op::Poll(0)); }
        }
        for with_set in [false, true] {
            let mut o2 = ops.clone();
            if with_set { o2.push(Op::Set(v)); }
            o2.push(Op::Close);
            o2.push(Op::Poll(0));
            o2.push(Op::Poll(0));
            emit(&mut em, o2);
        }
    }
    // one-shot notifications
    for script in ["P N5 P P", "N7 P P", "P P D P", "D P", "P N1 P", "N2 P"] {
        em.case(|| {
            let run = |tokio_rt: bool| -> String {
                let mut out = vec![];
                if tokio_rt {
                    let (once, mut st) = zlink_tokio::notified::Once::<u32>::new();
                    let mut once = Some(once);
                    for t in script.split(' ') {
                        match t.as_bytes()[0] {
                            b'P' => out.push(poll_stream(&mut st)),
                            b'N' => if let Some(o) = once.take() { o.notify(t[1..].parse::<u32>().unwrap()) },
                            _ => { once.take(); }
                        }
                    }
                } else {
                    let (once, mut st) = zlink_smol::notified::Once::<u32>::new();
                    let mut once = Some(once);
                    for t in script.split(' ') {
                        match t.as_bytes()[0] {
                            b'P' => out.push(poll_stream(&mut st)),
                            b'N' => if let Some(o) = once.take() { o.notify(t[1..].parse::<u32>().unwrap()) },
                            _ => { once.take(); }
                        }
                    }
                }
                out.join(" ")
            };
            vec![format!("once {} => T {} ; S {}", script, run(true), run(false))]
        });
    }
}
