//! Scenario `unix` (C19): zlink connections over real Unix-domain sockets, tokio and smol.
//!
//! `unix xfer <rt> A <size>* B <size>* slow=<0|1|2> => A <hash>* ; B <hash>*`
//!     two connected zlink connections; side 0 sends the A messages, side 1 sends the B messages at
//!     the same time; what each side *received* is listed (A = what side 1 received from side 0).
//!     The expected hashes are a function of (size, index), computed by the model as well.
//! `unix listen <rt> <bound|fd> n=<k> => ids=<distinct|dup> served=<k>`
//! `unix cancel <rt> big=<n> => <frames seen by the peer: ok:<hash> | bad:<len>>*`   (a send cancelled by a timeout
//!     while the peer is not reading, then a small message, then the peer reads everything)
//! `unix pollonce <rt> n=<k> size=<s> => done=<1|p|e per send> got=<index|bad:<len>>*`   (k small sends; each send future is
//!     polled exactly once and dropped if it is still pending - a send abandoned at its first suspension point -; the peer
//!     then reads everything: only whole frames, each at most once, in order, and every completed send's frame)

use crate::*;
use serde::{Deserialize, Serialize};
use std::time::Duration;
use zlink_core::{Call, Connection, Listener as _};

#[derive(Debug, Serialize, Deserialize, PartialEq)]
#[serde(tag = "method", content = "parameters")]
enum M {
    #[serde(rename = "x.Blob")]
    Blob { i: u32, data: String },
}

pub fn fnv(s: &[u8]) -> u64 {
    let mut h: u64 = 0xcbf29ce484222325;
    for b in s {
        h ^= *b as u64;
        h = h.wrapping_mul(0x100000001b3);
    }
    h
}

/// payload of message `i` of a list: `size` bytes determined by (size, i)
pub fn payload(size: usize, i: usize) -> String {
    let c = (b'a' + ((size + i) % 26) as u8) as char;
    let d = (b'A' + (i % 26) as u8) as char;
    let mut s = String::with_capacity(size);
    for k in 0..size {
        s.push(if k % 97 == 0 { d } else { c });
    }
    s
}
pub fn msg_hash(size: usize, i: usize) -> String {
    format!("{:016x}", fnv(format!("{i}:{}", payload(size, i)).as_bytes()))
}
fn got_hash(m: &M) -> String {
    let M::Blob { i, data } = m;
    format!("{:016x}", fnv(format!("{i}:{data}").as_bytes()))
}

/// how long a receiver waits for the next frame before reporting `err:timeout`
const RECV_TIMEOUT: Duration = Duration::from_secs(8);

async fn send_all<S: zlink_core::connection::Socket>(w: &mut zlink_core::connection::WriteConnection<S::WriteHalf>, sizes: &[usize]) {
    for (i, &n) in sizes.iter().enumerate() {
        let c = Call::new(M::Blob { i: i as u32, data: payload(n, i) });
        // every third message, if it is small and not the last, is only enqueued: it goes out with the next send, in
        // front of it (pipelining; the next message may be far larger than the write buffer)
        if i % 3 == 1 && n < 2000 && i + 1 < sizes.len() {
            if w.enqueue_call(&c).is_err() {
                break;
            }
            continue;
        }
        if w.send_call(&c).await.is_err() {
            break;
        }
    }
}

// ------------------------------------------------------------------ tokio

fn tokio_rt() -> tokio::runtime::Runtime {
    tokio::runtime::Builder::new_current_thread().enable_all().build().unwrap()
}

fn tokio_pair() -> (Connection<zlink_tokio::unix::Stream>, Connection<zlink_tokio::unix::Stream>) {
    let (a, b) = std::os::unix::net::UnixStream::pair().unwrap();
    a.set_nonblocking(true).unwrap();
    b.set_nonblocking(true).unwrap();
    let a = tokio::net::UnixStream::from_std(a).unwrap();
    let b = tokio::net::UnixStream::from_std(b).unwrap();
    (Connection::new(zlink_tokio::unix::Stream::from(a)), Connection::new(zlink_tokio::unix::Stream::from(b)))
}

fn xfer_tokio(sa: &[usize], sb: &[usize], slow: u8) -> (Vec<String>, Vec<String>) {
    tokio_rt().block_on(async {
        let (c0, c1) = tokio_pair();
        let (r0, mut w0) = c0.split();
        let (r1, mut w1) = c1.split();
        async fn recv(mut r: zlink_core::connection::ReadConnection<<zlink_tokio::unix::Stream as zlink_core::connection::Socket>::ReadHalf>, n: usize, slow: bool) -> Vec<String> {
            let mut out = vec![];
            for _ in 0..n {
                if slow {
                    tokio::time::sleep(Duration::from_millis(2)).await;
                }
                // a frame that does not come within RECV_TIMEOUT is an observation (`err:timeout`), not a hang
                match tokio::time::timeout(RECV_TIMEOUT, r.receive_call::<M>()).await {
                    Ok(Ok(c)) => out.push(got_hash(c.method())),
                    Ok(Err(e)) => {
                        out.push(format!("err:{e:?}").replace(' ', "_"));
                        break;
                    }
                    Err(_) => {
                        out.push("err:timeout".into());
                        break;
                    }
                }
            }
            out
        }
        let s0 = send_all::<zlink_tokio::unix::Stream>(&mut w0, sa);
        let s1 = send_all::<zlink_tokio::unix::Stream>(&mut w1, sb);
        let (_, _, a, b) = tokio::join!(s0, s1, recv(r1, sa.len(), slow == 1), recv(r0, sb.len(), slow == 2));
        (a, b)
    })
}

// ------------------------------------------------------------------ smol

fn smol_pair() -> (Connection<zlink_smol::unix::Stream>, Connection<zlink_smol::unix::Stream>) {
    let (a, b) = std::os::unix::net::UnixStream::pair().unwrap();
    let a = async_io::Async::new(a).unwrap();
    let b = async_io::Async::new(b).unwrap();
    (Connection::new(zlink_smol::unix::Stream::from(a)), Connection::new(zlink_smol::unix::Stream::from(b)))
}

fn xfer_smol(sa: &[usize], sb: &[usize], slow: u8) -> (Vec<String>, Vec<String>) {
    async_io::block_on(async {
        let (c0, c1) = smol_pair();
        let (r0, mut w0) = c0.split();
        let (r1, mut w1) = c1.split();
        async fn recv(mut r: zlink_core::connection::ReadConnection<<zlink_smol::unix::Stream as zlink_core::connection::Socket>::ReadHalf>, n: usize, slow: bool) -> Vec<String> {
            let mut out = vec![];
            for _ in 0..n {
                if slow {
                    async_io::Timer::after(Duration::from_millis(2)).await;
                }
                let res = futures_lite::future::or(async { Some(r.receive_call::<M>().await.map(|c| got_hash(c.method()))) }, async {
                    async_io::Timer::after(RECV_TIMEOUT).await;
                    None
                })
                .await;
                match res {
                    Some(Ok(h)) => out.push(h),
                    Some(Err(e)) => {
                        out.push(format!("err:{e:?}").replace(' ', "_"));
                        break;
                    }
                    None => {
                        out.push("err:timeout".into());
                        break;
                    }
                }
            }
            out
        }
        let s0 = send_all::<zlink_smol::unix::Stream>(&mut w0, sa);
        let s1 = send_all::<zlink_smol::unix::Stream>(&mut w1, sb);
        let ((_, _), (a, b)) = futures_lite::future::zip(futures_lite::future::zip(s0, s1), futures_lite::future::zip(recv(r1, sa.len(), slow == 1), recv(r0, sb.len(), slow == 2))).await;
        (a, b)
    })
}

// ------------------------------------------------------------------ listeners

fn tmp_path(tag: &str) -> std::path::PathBuf {
    let p = std::env::temp_dir().join(format!("zvrt-{}-{}-{}.sock", std::process::id(), tag, std::time::SystemTime::now().duration_since(std::time::UNIX_EPOCH).unwrap().as_nanos()));
    let _ = std::fs::remove_file(&p);
    p
}

/// runs `f` on a thread of its own and gives up after `secs` seconds (a runtime thread blocked in the kernel never
/// returns: the scenario must not hang with it)
fn with_deadline<T: Send + 'static>(secs: u64, f: impl FnOnce() -> T + Send + 'static) -> Option<T> {
    let (tx, rx) = std::sync::mpsc::channel();
    std::thread::spawn(move || {
        let _ = tx.send(f());
    });
    rx.recv_timeout(Duration::from_secs(secs)).ok()
}

fn listen_tokio(from_fd: bool, k: usize) -> (bool, usize) {
    let path = tmp_path("t");
    let r = tokio_rt().block_on(async {
        let mut listener = if from_fd {
            let std_l = std::os::unix::net::UnixListener::bind(&path).unwrap();
            let fd: std::os::fd::OwnedFd = std_l.into();
            zlink_tokio::unix::Listener::try_from(fd).unwrap()
        } else {
            zlink_tokio::unix::bind(&path).unwrap()
        };
        let mut ids = vec![];
        let mut served: usize = 0;
        let mut clients = vec![];
        for _ in 0..k {
            clients.push(zlink_tokio::unix::connect(&path).await.unwrap());
        }
        let mut conns = vec![];
        for _ in 0..k {
            let c = listener.accept().await.unwrap();
            ids.push(c.id());
            conns.push(c);
        }
        for c in &clients {
            ids.push(c.id());
        }
        for (i, cl) in clients.iter_mut().enumerate() {
            cl.send_call(&Call::new(M::Blob { i: i as u32, data: payload(10 + i, i) })).await.unwrap();
        }
        for (i, c) in conns.iter_mut().enumerate() {
            if let Ok(call) = c.receive_call::<M>().await {
                if got_hash(call.method()) == msg_hash(10 + i, i) {
                    served += 1;
                }
            }
        }
        // the accepted connection then sends a message larger than the kernel's socket buffer to its client while
        // the client receives it on the same executor thread: neither side may block that thread
        for (i, (c, cl)) in conns.iter_mut().zip(clients.iter_mut()).enumerate() {
            let big = Call::new(M::Blob { i: (7 + i) as u32, data: payload(300_000 + i, 7 + i) });
            let (sent, got) = tokio::join!(c.send_call(&big), cl.receive_call::<M>());
            let ok = sent.is_ok() && matches!(got, Ok(call) if got_hash(call.method()) == msg_hash(300_000 + i, 7 + i));
            if !ok {
                served = served.saturating_sub(1);
            }
        }
        let mut s = ids.clone();
        s.sort();
        s.dedup();
        (s.len() == ids.len(), served)
    });
    let _ = std::fs::remove_file(&path);
    r
}

fn listen_smol(from_fd: bool, k: usize) -> (bool, usize) {
    let path = tmp_path("s");
    let r = async_io::block_on(async {
        let mut listener = if from_fd {
            let std_l = std::os::unix::net::UnixListener::bind(&path).unwrap();
            let fd: std::os::fd::OwnedFd = std_l.into();
            zlink_smol::unix::Listener::try_from(fd).unwrap()
        } else {
            zlink_smol::unix::bind(&path).unwrap()
        };
        let mut ids = vec![];
        let mut served: usize = 0;
        let mut clients = vec![];
        for _ in 0..k {
            clients.push(zlink_smol::unix::connect(&path).await.unwrap());
        }
        let mut conns = vec![];
        for _ in 0..k {
            let c = listener.accept().await.unwrap();
            ids.push(c.id());
            conns.push(c);
        }
        for c in &clients {
            ids.push(c.id());
        }
        for (i, cl) in clients.iter_mut().enumerate() {
            cl.send_call(&Call::new(M::Blob { i: i as u32, data: payload(10 + i, i) })).await.unwrap();
        }
        for (i, c) in conns.iter_mut().enumerate() {
            if let Ok(call) = c.receive_call::<M>().await {
                if got_hash(call.method()) == msg_hash(10 + i, i) {
                    served += 1;
                }
            }
        }
        // the accepted connection then sends a message larger than the kernel's socket buffer to its client while
        // the client receives it on the same executor thread: neither side may block that thread
        for (i, (c, cl)) in conns.iter_mut().zip(clients.iter_mut()).enumerate() {
            let big = Call::new(M::Blob { i: (7 + i) as u32, data: payload(300_000 + i, 7 + i) });
            let (sent, got) = futures_lite::future::zip(c.send_call(&big), cl.receive_call::<M>()).await;
            let ok = sent.is_ok() && matches!(got, Ok(call) if got_hash(call.method()) == msg_hash(300_000 + i, 7 + i));
            if !ok {
                served = served.saturating_sub(1);
            }
        }
        let mut s = ids.clone();
        s.sort();
        s.dedup();
        (s.len() == ids.len(), served)
    });
    let _ = std::fs::remove_file(&path);
    r
}

// ------------------------------------------------------------------ cancellation

/// frames the peer sees on the raw socket, classified: `ok:<hash>` if the frame decodes as a Blob call
fn classify_frames(raw: &[u8]) -> Vec<String> {
    raw.split(|b| *b == 0)
        .filter(|f| !f.is_empty())
        .map(|f| match serde_json::from_slice::<Call<M>>(f) {
            Ok(c) => format!("ok:{}", got_hash(c.method())),
            Err(_) => format!("bad:{}", f.len()),
        })
        .collect()
}

fn cancel_tokio(big: usize) -> Vec<String> {
    tokio_rt().block_on(async {
        let (a, b) = std::os::unix::net::UnixStream::pair().unwrap();
        a.set_nonblocking(true).unwrap();
        let mut conn = Connection::new(zlink_tokio::unix::Stream::from(tokio::net::UnixStream::from_std(a).unwrap()));
        let c = Call::new(M::Blob { i: 0, data: payload(big, 0) });
        // the peer is not reading: the send cannot complete and is abandoned by the timeout
        let _ = tokio::time::timeout(Duration::from_millis(30), conn.send_call(&c)).await;
        // drain in a thread while the next (small) message is sent
        let reader = std::thread::spawn(move || {
            use std::io::Read;
            let mut b = b;
            b.set_read_timeout(Some(Duration::from_millis(300))).unwrap();
            let mut all = vec![];
            let mut buf = vec![0u8; 1 << 16];
            loop {
                match b.read(&mut buf) {
                    Ok(0) => break,
                    Ok(n) => all.extend_from_slice(&buf[..n]),
                    Err(_) => break,
                }
            }
            all
        });
        let small = Call::new(M::Blob { i: 1, data: payload(5, 1) });
        let _ = tokio::time::timeout(Duration::from_millis(2000), conn.send_call(&small)).await;
        drop(conn);
        classify_frames(&reader.join().unwrap())
    })
}

fn cancel_smol(big: usize) -> Vec<String> {
    async_io::block_on(async {
        let (a, b) = std::os::unix::net::UnixStream::pair().unwrap();
        let mut conn = Connection::new(zlink_smol::unix::Stream::from(async_io::Async::new(a).unwrap()));
        let c = Call::new(M::Blob { i: 0, data: payload(big, 0) });
        let _ = futures_lite::future::or(async { conn.send_call(&c).await.ok(); }, async { async_io::Timer::after(Duration::from_millis(30)).await; }).await;
        let reader = std::thread::spawn(move || {
            use std::io::Read;
            let mut b = b;
            b.set_read_timeout(Some(Duration::from_millis(300))).unwrap();
            let mut all = vec![];
            let mut buf = vec![0u8; 1 << 16];
            loop {
                match b.read(&mut buf) {
                    Ok(0) => break,
                    Ok(n) => all.extend_from_slice(&buf[..n]),
                    Err(_) => break,
                }
            }
            all
        });
        let small = Call::new(M::Blob { i: 1, data: payload(5, 1) });
        let _ = futures_lite::future::or(async { conn.send_call(&small).await.ok(); }, async { async_io::Timer::after(Duration::from_millis(2000)).await; }).await;
        drop(conn);
        classify_frames(&reader.join().unwrap())
    })
}

fn noop_waker() -> std::task::Waker {
    use std::task::{RawWaker, RawWakerVTable, Waker};
    fn raw() -> RawWaker {
        fn clone(_: *const ()) -> RawWaker { raw() }
        fn noop(_: *const ()) {}
        static VT: RawWakerVTable = RawWakerVTable::new(clone, noop, noop, noop);
        RawWaker::new(std::ptr::null(), &VT)
    }
    unsafe { Waker::from_raw(raw()) }
}

fn frames_to_indices(raw: &[u8]) -> Vec<String> {
    raw.split(|b| *b == 0)
        .filter(|f| !f.is_empty())
        .map(|f| match serde_json::from_slice::<Call<M>>(f) {
            Ok(c) => {
                let M::Blob { i, .. } = c.method();
                i.to_string()
            }
            Err(_) => format!("bad:{}", f.len()),
        })
        .collect()
}

fn read_all_thread(b: std::os::unix::net::UnixStream) -> std::thread::JoinHandle<Vec<u8>> {
    std::thread::spawn(move || {
        use std::io::Read;
        let mut b = b;
        b.set_read_timeout(Some(Duration::from_millis(10_000))).unwrap();
        let mut all = vec![];
        let mut buf = vec![0u8; 1 << 16];
        loop {
            match b.read(&mut buf) {
                Ok(0) => break,
                Ok(n) => all.extend_from_slice(&buf[..n]),
                Err(_) => break,
            }
        }
        all
    })
}

/// gives the executor a turn (tokio's cooperative budget makes every I/O operation report Pending after 128 of them
/// within one poll of the task; a turn resets it)
struct YieldOnce(bool);
impl std::future::Future for YieldOnce {
    type Output = ();
    fn poll(mut self: std::pin::Pin<&mut Self>, cx: &mut std::task::Context<'_>) -> std::task::Poll<()> {
        if self.0 {
            std::task::Poll::Ready(())
        } else {
            self.0 = true;
            cx.waker().wake_by_ref();
            std::task::Poll::Pending
        }
    }
}

/// `n` sends of about `size` bytes, each polled exactly once; a send that is still pending after its first poll
/// is dropped (abandoned at its first suspension point). Index 0 is a warm-up sent normally.
async fn pollonce_on<S: zlink_core::connection::Socket>(conn: &mut Connection<S>, n: usize, size: usize) -> String {
    use std::future::Future;
    let waker = noop_waker();
    let mut done = String::new();
    let warm = Call::new(M::Blob { i: 0, data: payload(size, 0) });
    done.push(if conn.send_call(&warm).await.is_ok() { '1' } else { 'e' });
    for i in 1..n {
        if i % 50 == 0 {
            YieldOnce(false).await;
        }
        let c = Call::new(M::Blob { i: i as u32, data: payload(size + i % 7, i) });
        let mut cx = std::task::Context::from_waker(&waker);
        let mut f = Box::pin(conn.send_call(&c));
        match f.as_mut().poll(&mut cx) {
            std::task::Poll::Ready(Ok(())) => done.push('1'),
            std::task::Poll::Ready(Err(_)) => done.push('e'),
            std::task::Poll::Pending => done.push('p'),
        }
        drop(f);
    }
    done
}

fn pollonce_tokio(n: usize, size: usize) -> (String, Vec<String>) {
    tokio_rt().block_on(async {
        let (a, b) = std::os::unix::net::UnixStream::pair().unwrap();
        a.set_nonblocking(true).unwrap();
        let mut conn = Connection::new(zlink_tokio::unix::Stream::from(tokio::net::UnixStream::from_std(a).unwrap()));
        let reader = read_all_thread(b);
        let done = pollonce_on(&mut conn, n, size).await;
        drop(conn);
        (done, frames_to_indices(&reader.join().unwrap()))
    })
}

fn pollonce_smol(n: usize, size: usize) -> (String, Vec<String>) {
    async_io::block_on(async {
        let (a, b) = std::os::unix::net::UnixStream::pair().unwrap();
        let mut conn = Connection::new(zlink_smol::unix::Stream::from(async_io::Async::new(a).unwrap()));
        let reader = read_all_thread(b);
        let done = pollonce_on(&mut conn, n, size).await;
        drop(conn);
        (done, frames_to_indices(&reader.join().unwrap()))
    })
}

/// Connections created at the same instant by several OS threads (a barrier releases them together): the
/// identifiers must still be pairwise distinct. Real socket pairs, wrapped as zlink connections of the runtime.
fn concurrent_ids(tokio_rt_kind: bool, threads: usize, per: usize, rounds: usize) -> (usize, usize) {
    use std::sync::{Arc, Barrier, Mutex};
    let rt = if tokio_rt_kind { Some(tokio::runtime::Builder::new_current_thread().enable_all().build().unwrap()) } else { None };
    let all: Arc<Mutex<Vec<usize>>> = Arc::new(Mutex::new(vec![]));
    for _ in 0..rounds {
        let barrier = Arc::new(Barrier::new(threads));
        let mut hs = vec![];
        for _ in 0..threads {
            let barrier = barrier.clone();
            let all = all.clone();
            let handle = rt.as_ref().map(|r| r.handle().clone());
            hs.push(std::thread::spawn(move || {
                let _guard = handle.as_ref().map(|h| h.enter());
                let pairs: Vec<_> = (0..per).map(|_| std::os::unix::net::UnixStream::pair().unwrap()).collect();
                barrier.wait();
                let mut ids = vec![];
                let mut keep_t = vec![];
                let mut keep_s = vec![];
                for (a, _b) in pairs.iter() {
                    let a = a.try_clone().unwrap();
                    if tokio_rt_kind {
                        a.set_nonblocking(true).unwrap();
                        let c = Connection::new(zlink_tokio::unix::Stream::from(tokio::net::UnixStream::from_std(a).unwrap()));
                        ids.push(c.id());
                        keep_t.push(c);
                    } else {
                        let c = Connection::new(zlink_smol::unix::Stream::from(async_io::Async::new(a).unwrap()));
                        ids.push(c.id());
                        keep_s.push(c);
                    }
                }
                all.lock().unwrap().extend(ids);
                drop(keep_t);
                drop(keep_s);
            }));
        }
        for h in hs {
            h.join().unwrap();
        }
    }
    let v = all.lock().unwrap().clone();
    let mut s = v.clone();
    s.sort();
    s.dedup();
    (v.len(), s.len())
}

fn sizes(rng: &mut Rng, n: usize, big: bool) -> Vec<usize> {
    (0..n)
        .map(|_| match rng.below(if big { 8 } else { 5 }) {
            0 => rng.range(1, 40),
            1 => rng.range(200, 300),
            2 => rng.range(1000, 70_000),
            3 => 256 * rng.range(1, 40) - rng.range(0, 2),
            4 => rng.range(1, 5000),
            5 => rng.range(200_000, 400_000),
            6 => 1 << 20,
            _ => rng.range(100_000, 1_100_000),
        })
        .collect()
}

/// payload size that gives message `i` a wire size (frame + terminator) of exactly `wire` bytes
fn payload_for_wire(wire: usize, i: usize) -> usize {
    let overhead = serde_json::to_vec(&Call::new(M::Blob { i: i as u32, data: String::new() })).map(|v| v.len()).unwrap_or(50) + 1;
    wire.saturating_sub(overhead).max(1)
}

/// message lists whose wire sizes sit on the sizes a read buffer can have (256 * k, 256 * 2^k): a first message of
/// exactly / one less / one more than the initial buffer, ascending powers of two, multiples of the growth step,
/// each followed by a small message that must still arrive
fn boundary_lists(rng: &mut Rng, thorough: bool) -> Vec<Vec<usize>> {
    let mut ls: Vec<Vec<usize>> = vec![];
    for w in [255usize, 256, 257] {
        ls.push(vec![payload_for_wire(w, 0), 20]);
    }
    let mut asc = vec![];
    for k in 8..=(if thorough { 18 } else { 16 }) {
        asc.push(payload_for_wire(1 << k, asc.len()));
        asc.push(rng.range(1, 40));
    }
    ls.push(asc);
    for _ in 0..(if thorough { 12 } else { 3 }) {
        let mut l = vec![];
        for _ in 0..rng.range(2, 6) {
            let w = match rng.below(3) { 0 => 256 * rng.range(1, 40), 1 => 256 << rng.below(9), _ => 256 * rng.range(1, 8) + rng.range(0, 2) - 1 };
            l.push(payload_for_wire(w, l.len()));
            if rng.chance(1, 2) {
                l.push(rng.range(1, 60));
            }
        }
        l.push(7);
        ls.push(l);
    }
    ls
}

pub fn main(o: &Opts) {
    let mut em = Emitter { only: o.index, n: 0 };
    let mut rng = Rng::new(o.seed ^ 0x756e6978);
    let n = if o.thorough() { 150 } else { 16 };
    let blists = boundary_lists(&mut Rng::new(o.seed ^ 0x626e6479), o.thorough());
    for rt in ["tokio", "smol"] {
        for (bi, la) in blists.iter().enumerate() {
            let lb: Vec<usize> = if bi % 2 == 0 { vec![] } else { la.iter().rev().take(3).copied().collect() };
            let slow = (bi % 3) as u8;
            em.case(|| {
                let (a, b) = if rt == "tokio" { xfer_tokio(la, &lb, slow) } else { xfer_smol(la, &lb, slow) };
                let f = |v: &[usize]| v.iter().map(|x| x.to_string()).collect::<Vec<_>>().join(" ");
                let x = |v: &[usize]| v.iter().enumerate().map(|(i, n)| msg_hash(*n, i)).collect::<Vec<_>>().join(" ");
                vec![format!("unix xfer {rt} A {} B {} slow={slow} XA {} XB {} => A {} ; B {}", f(la), f(&lb), x(la), x(&lb), a.join(" "), b.join(" "))]
            });
        }
        for t in 0..n {
            let big = t % 2 == 0;
            let na = rng.range(1, 10);
            let la = sizes(&mut rng, na, big);
            let nb = rng.range(1, 8);
            let lb = if t % 3 == 0 { vec![] } else { sizes(&mut rng, nb, big && t % 4 == 0) };
            let slow = (t % 3) as u8;
            em.case(|| {
                let (a, b) = if rt == "tokio" { xfer_tokio(&la, &lb, slow) } else { xfer_smol(&la, &lb, slow) };
                let f = |v: &[usize]| v.iter().map(|x| x.to_string()).collect::<Vec<_>>().join(" ");
                let x = |v: &[usize]| v.iter().enumerate().map(|(i, n)| msg_hash(*n, i)).collect::<Vec<_>>().join(" ");
                vec![format!("unix xfer {rt} A {} B {} slow={slow} XA {} XB {} => A {} ; B {}", f(&la), f(&lb), x(&la), x(&lb), a.join(" "), b.join(" "))]
            });
        }
        for from_fd in [false, true] {
            for k in [1usize, 3, 8] {
                em.case(|| {
                    let tk = rt == "tokio";
                    let r = with_deadline(40, move || if tk { listen_tokio(from_fd, k) } else { listen_smol(from_fd, k) });
                    match r {
                        Some((distinct, served)) => vec![format!("unix listen {rt} {} n={k} => ids={} served={served}", if from_fd { "fd" } else { "bound" }, if distinct { "distinct" } else { "dup" })],
                        None => vec![format!("unix listen {rt} {} n={k} => ids=unknown served=stalled", if from_fd { "fd" } else { "bound" })],
                    }
                });
            }
        }
        {
            let rounds = if o.thorough() { 400 } else { 60 };
            em.case(|| {
                let (n, d) = concurrent_ids(rt == "tokio", 8, 16, rounds);
                vec![format!("unix ids {rt} threads=8 per=16 rounds={rounds} n={n} => ids={}", if n == d { "distinct".to_string() } else { format!("dup:{}", n - d) })]
            });
        }
        for (n, size) in [(130usize, 40usize), (70, 180), (200, 10)] {
            em.case(|| {
                let (done, got) = if rt == "tokio" { pollonce_tokio(n, size) } else { pollonce_smol(n, size) };
                vec![format!("unix pollonce {rt} n={n} size={size} => done={done} got={}", got.join(","))]
            });
        }
        for big in [1usize << 20, 400_000] {
            em.case(|| {
                let fr = if rt == "tokio" { cancel_tokio(big) } else { cancel_smol(big) };
                vec![format!("unix cancel {rt} big={big} X {} {} => {}", msg_hash(big, 0), msg_hash(5, 1), fr.join(" "))]
            });
        }
    }
}
