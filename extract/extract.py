#!/usr/bin/env python3
"""Translator for constants and finite tables: /repo's working tree -> lean/Zlink/Gen/Consts.lean.

Each table is read in up to two ways: (1) from the source text (regex-level reading of named constants and
literal tables); (2) when the text no longer has the expected shape (a table rebuilt by a `const fn`, flags
written in a loop ...) and the table is observable, from the *behaviour* of the compiled code: the harness
binary `zv tables` is built against /repo's working tree and asked. A table that can be read in neither way gets
a placeholder definition (empty), so that `Gen/Consts.lean` still compiles and exactly the theorems that depend
on that table stop checking - no other property is affected. How each table was obtained is written to
`lean/Zlink/Gen/status.json` and shown in the evidence.

Run by bin/check on every run; the Lean theorems that depend on these values are then re-checked by
`lake build` against what the code says now. The output file is only rewritten when its content changes,
so unchanged sources keep lake's cache.
"""
import re, sys, os, json, subprocess, shutil

REPO = os.environ.get("ZLINK_REPO", "/repo")
OUT = os.path.join(os.path.dirname(os.path.dirname(os.path.abspath(__file__))), "lean", "Zlink", "Gen", "Consts.lean")


def read(p):
    return open(os.path.join(REPO, p), encoding="utf-8").read()


def const_expr(expr):
    expr = re.sub(r"//.*", "", expr).strip()
    if not re.fullmatch(r"[0-9_\s\*\+\(\)]+", expr):
        raise ValueError("unsupported constant expression: " + expr)
    return int(eval(expr.replace("_", "")))


VERIF = os.path.dirname(os.path.dirname(os.path.abspath(__file__)))
_probe = None


def probe():
    """`zv tables` of the harness built against the current tree: {key: [tokens]} (None if it cannot be built)."""
    global _probe
    if _probe is not None:
        return _probe or None
    _probe = {}
    hdir = os.path.join(VERIF, "harness")
    try:
        lock = os.path.join(hdir, "Cargo.lock")
        if not os.path.exists(lock):
            shutil.copy(os.path.join(REPO, "Cargo.lock"), lock)
        env = dict(os.environ, CARGO_NET_OFFLINE="true")
        for pkg in ("zv", "zvg"):
            r = subprocess.run(["cargo", "build", "--release", "--offline", "-p", pkg], cwd=hdir, env=env,
                               stdout=subprocess.PIPE, stderr=subprocess.STDOUT, timeout=3000)
            if r.returncode != 0:
                continue
            r = subprocess.run([os.path.join(hdir, "target", "release", pkg), "tables"], stdout=subprocess.PIPE,
                               stderr=subprocess.PIPE, timeout=120)
            if r.returncode != 0:
                continue
            for line in r.stdout.decode().splitlines():
                t = line.split()
                if t:
                    _probe[t[0]] = t[1:]
    except Exception:  # noqa
        _probe = {}
    return _probe or None


def escape_table_behaviour():
    pr = probe()
    if not pr or "esc" not in pr or "hex" not in pr:
        raise ValueError("behavioural probe unavailable")
    vals = [int(x) for x in pr["esc"]]
    hexd = [int(x) for x in pr["hex"]]
    if len(vals) != 256 or len(hexd) != 16 or 255 in vals:
        raise ValueError("behavioural escape table not understood")
    rows = ["  " + ", ".join(str(v) for v in vals[i:i + 16]) for i in range(0, 256, 16)]
    return ["def escapeTable : List Nat := [\n" + ",\n".join(rows) + "]",
            "def hexDigits : List Nat := [" + ", ".join(map(str, hexd)) + "]"]


def call_flags_behaviour():
    pr = probe()
    if not pr or "flags-ser" not in pr or "flags-de" not in pr:
        raise ValueError("behavioural probe unavailable")
    return ["def callFlagsSer : List String := [" + ", ".join(f'"{x}"' for x in pr["flags-ser"]) + "]",
            "def callFlagsDe : List String := [" + ", ".join(f'"{x}"' for x in pr["flags-de"]) + "]"]


def pairs(tokens):
    return [tuple(t.split("=", 1)) for t in tokens]


def introspect_tables_behaviour():
    pr = probe()
    if not pr or "intro-atoms" not in pr or "intro-ctors" not in pr:
        raise ValueError("behavioural probe unavailable")
    atoms, ctors = pairs(pr["intro-atoms"]), pairs(pr["intro-ctors"])
    if len(atoms) < 20 or len(ctors) < 10:
        raise ValueError("behavioural introspection tables look wrong")
    return ["def introAtoms : List (List UInt8 × List UInt8) := [" + ", ".join(f"({bl(a)}, {bl(b)})" for a, b in atoms) + "]",
            "def introCtors : List (List UInt8 × List UInt8) := [" + ", ".join(f"({bl(a)}, {bl(b)})" for a, b in ctors) + "]",
            "/-- the same tables, readable -/",
            "def introAtomsText : List (String × String) := [" + ", ".join(f'("{a}", "{b}")' for a, b in atoms) + "]",
            "def introCtorsText : List (String × String) := [" + ", ".join(f'("{a}", "{b}")' for a, b in ctors) + "]"]


def codegen_tables_behaviour():
    pr = probe()
    if not pr or "cg-keywords" not in pr or "cg-notraw" not in pr or "cg-prim" not in pr:
        raise ValueError("behavioural probe unavailable")
    kws, notraw = pr["cg-keywords"], pr["cg-notraw"]
    # the source lists the non-raw keywords in this order
    order = ["self", "Self", "super", "crate"]
    notraw = [k for k in order if k in notraw] + [k for k in notraw if k not in order]
    rows = []
    for t in pr["cg-prim"]:
        fn_k, ty = t.split("=", 1)
        fn, k = fn_k.split(":", 1)
        rows.append(f"({bl(fn)}, {bl(k)}, {bl(ty.replace('~', ' '))})")
    if len(kws) < 30 or len(rows) != 20:
        raise ValueError("behavioural codegen tables look wrong")
    return ["def rustKeywords : List (List UInt8) := [" + ", ".join(bl(k) for k in kws) + "]",
            "def notRawKeywords : List (List UInt8) := [" + ", ".join(bl(k) for k in notraw) + "]",
            "def cgPrimRows : List (List UInt8 × List UInt8 × List UInt8) := [" + ", ".join(rows) + "]"]


def idl_tables_behaviour():
    pr = probe()
    if not pr or not all(k in pr for k in ("idl-prims", "idl-kws", "idl-punct", "idl-display")):
        raise ValueError("behavioural probe unavailable")
    prims = pairs(pr["idl-prims"])
    kws = sorted(pr["idl-kws"])
    punct = sorted(pr["idl-punct"])
    disp = [(a, b.replace("_", " ")) for a, b in pairs(pr["idl-display"])]
    if len(prims) < 3 or len(kws) < 3:
        raise ValueError("behavioural IDL tables look wrong")
    return ["def idlPrimitives : List (List UInt8 × List UInt8) := [" + ", ".join(f"({bl(a)}, {bl(b)})" for a, b in prims) + "]",
            "def idlKeywords : List (List UInt8) := [" + ", ".join(bl(k) for k in kws) + "]",
            "def idlPunct : List (List UInt8) := [" + ", ".join(bl(k) for k in punct) + "]",
            "def idlDisplayKeywords : List (List UInt8 × List UInt8) := [" + ", ".join(f"({bl(a)}, {bl(b)})" for a, b in disp) + "]"]


# placeholder definitions (right types, no content): the file still compiles, the dependent theorems do not check
PLACEHOLDER = {
    "buffer_consts": ["def bufferSize : Nat := 0", "def maxBufferSizeProd : Nat := 0", "def maxBufferSizeHook : Nat := 0"],
    "escape_table": ["def escapeTable : List Nat := []", "def hexDigits : List Nat := []"],
    "service_api": ['def svcInterface : String := ""',
                    "def svcErrors : List (String × Option (List (String × String))) := []",
                    "def svcMethods : List (String × String) := []"],
    "call_flags": ["def callFlagsSer : List String := []", "def callFlagsDe : List String := []"],
    "codegen_tables": ["def rustKeywords : List (List UInt8) := []", "def notRawKeywords : List (List UInt8) := []",
                       "def cgPrimRows : List (List UInt8 × List UInt8 × List UInt8) := []"],
    "introspect_tables": ["def introAtoms : List (List UInt8 × List UInt8) := []", "def introCtors : List (List UInt8 × List UInt8) := []",
                          "def introAtomsText : List (String × String) := []", "def introCtorsText : List (String × String) := []"],
    "idl_tables": ["def idlPrimitives : List (List UInt8 × List UInt8) := []", "def idlKeywords : List (List UInt8) := []",
                   "def idlPunct : List (List UInt8) := []", "def idlDisplayKeywords : List (List UInt8 × List UInt8) := []"],
}


def buffer_consts():
    src = read("zlink-core/src/connection/mod.rs")
    m = re.search(r"const BUFFER_SIZE: usize = ([^;]+);", src)
    prod = re.search(r"#\[cfg\(not\(zlink_verif\)\)\]\s*(?:pub\(crate\) )?const MAX_BUFFER_SIZE: usize = ([^;]+);", src)
    hook = re.search(r"#\[cfg\(zlink_verif\)\]\s*(?:pub\(crate\) )?const MAX_BUFFER_SIZE: usize = ([^;]+);", src)
    return [f"def bufferSize : Nat := {const_expr(m.group(1))}",
            f"def maxBufferSizeProd : Nat := {const_expr(prod.group(1))}",
            f"def maxBufferSizeHook : Nat := {const_expr(hook.group(1))}"]


def main():
    out = ["/-! GENERATED by /verif/extract/extract.py from /repo's working tree — do not edit. -/", "namespace Gen"]
    status = {}
    for name, readers in TABLES:
        got, why = None, []
        for how, fn in readers:
            if os.environ.get("ZLINK_EXTRACT_PREFER") == "behaviour" and how == "source" and len(readers) > 1:
                continue  # self-test of the behavioural readers
            try:
                got = fn()
                status[name] = how
                break
            except Exception as e:  # noqa
                why.append(f"{how}: {e!r}")
        if got is None:
            got = PLACEHOLDER[name]
            status[name] = "FAILED (" + "; ".join(why) + ")"
        elif why:
            status[name] += " (" + "; ".join(why) + ")"
        out.extend(got)
    out.append("end Gen")
    text = "\n".join(out) + "\n"
    old = open(OUT).read() if os.path.exists(OUT) else None
    if old != text:
        open(OUT, "w").write(text)
    json.dump(status, open(os.path.join(os.path.dirname(OUT), "status.json"), "w"), indent=1)
    failed = [k for k, v in status.items() if v.startswith("FAILED")]
    if failed:
        sys.stderr.write("extract.py: tables not extracted: " + ", ".join(f"{k}: {status[k]}" for k in failed) + "\n")
    return 0


def escape_table():
    """json_ser.rs: named escape constants, the 256-entry ESCAPE table, HEX_DIGITS."""
    src = read("zlink-core/src/json_ser.rs")
    consts = {}
    for m in re.finditer(r"const ([A-Z_]{2}): u8 = ([^;]+);", src):
        v = m.group(2).strip()
        if re.fullmatch(r"\d+", v):
            consts[m.group(1)] = int(v)
        else:
            mm = re.fullmatch(r"b'(\\?.)'", v)
            if not mm:
                raise ValueError("unsupported escape constant " + v)
            c = mm.group(1)
            consts[m.group(1)] = ord(c[-1]) if len(c) == 2 else ord(c)
    m = re.search(r"static ESCAPE: \[u8; 256\] = \[(.*?)\];", src, re.S)
    body = re.sub(r"//.*", "", m.group(1))
    names = [x.strip() for x in body.split(",") if x.strip()]
    if len(names) != 256:
        raise ValueError(f"ESCAPE has {len(names)} entries")
    vals = [consts[n] if n in consts else int(n) for n in names]
    m = re.search(r'const HEX_DIGITS: \[u8; 16\] = \*b"([^"]*)";', src)
    hexd = [ord(c) for c in m.group(1)]
    if len(hexd) != 16:
        raise ValueError("HEX_DIGITS length")
    rows = []
    for i in range(0, 256, 16):
        rows.append("  " + ", ".join(str(v) for v in vals[i:i + 16]))
    return ["def escapeTable : List Nat := [\n" + ",\n".join(rows) + "]",
            "def hexDigits : List Nat := [" + ", ".join(map(str, hexd)) + "]"]


def rust_enum_variants(src, enum_name):
    """Variants of `pub enum <name> { ... }`: [(variant, [(field, type)] or None)] (doc comments/attrs skipped)."""
    m = re.search(r"pub enum " + enum_name + r"(?:<[^>]*>)?\s*\{", src)
    if not m:
        raise ValueError("enum " + enum_name + " not found")
    i = m.end()
    depth = 1
    j = i
    while depth:
        c = src[j]
        depth += (c == "{") - (c == "}")
        j += 1
    body = src[i:j - 1]
    body = re.sub(r"//[^\n]*", "", body)
    body = re.sub(r"#\[[^\]]*\]", "", body)
    out = []
    for vm in re.finditer(r"([A-Z][A-Za-z0-9]*)\s*(\{([^}]*)\})?\s*,", body):
        fields = None
        if vm.group(2):
            fields = [(f.group(1), f.group(2).strip()) for f in re.finditer(r"([a-z_][a-z0-9_]*)\s*:\s*([^,]+),?", vm.group(3))]
        out.append((vm.group(1), fields))
    return out


def service_api():
    """varlink_service/api.rs: the standard errors and methods; call flag names of call/ser.rs and call/de.rs."""
    src = read("zlink-core/src/varlink_service/api.rs")
    m = re.search(r'#\[zlink\(interface = "([^"]+)"\)\]\s*(?:#\[[^\]]*\]\s*)*pub enum Error', src)
    iface = m.group(1)
    errs = rust_enum_variants(src, "Error")
    def lean_variants(vs):
        items = []
        for n, fs in vs:
            if fs is None:
                items.append(f'("{n}", none)')
            else:
                items.append(f'("{n}", some [' + ", ".join(f'("{a}", "{b}")' for a, b in fs) + "])")
        return "[" + ", ".join(items) + "]"
    out = [f'def svcInterface : String := "{iface}"',
           "def svcErrors : List (String × Option (List (String × String))) := " + lean_variants(errs)]
    # methods: names come from #[serde(rename = "...")] in enum Method
    mm = re.search(r"pub enum Method<'a>\s*\{(.*?)\n\}", src, re.S)
    names = re.findall(r'#\[serde\(rename = "([^"]+)"\)\]\s*([A-Za-z]+)', mm.group(1))
    out.append("def svcMethods : List (String × String) := [" + ", ".join(f'("{a}", "{b}")' for a, b in names) + "]")
    return out


def call_flags():
    """call/ser.rs, call/de.rs: the names of the three call flags as written and as recognised."""
    ser = read("zlink-core/src/call/ser.rs")
    de = read("zlink-core/src/call/de.rs")
    sflags = re.findall(r'serialize_entry\("([a-z]+)", &true\)', ser)
    dflags = re.findall(r'^\s*"([a-z]+)" => \{', de, re.M)
    if len(sflags) != 3 or len(dflags) != 3:
        raise ValueError(f"flag names not found in the expected shape: {sflags} {dflags}")
    return ["def callFlagsSer : List String := [" + ", ".join(f'"{x}"' for x in sflags) + "]",
            "def callFlagsDe : List String := [" + ", ".join(f'"{x}"' for x in dflags) + "]"]


def bl(s):
    return "[" + ", ".join(str(b) for b in s.encode()) + "]"


def codegen_tables():
    """zlink-codegen/src/codegen.rs: the keyword table, the keywords that cannot be raw identifiers, and the
    primitive rows of the four IDL type -> Rust type tables (as byte lists: string literals do not reduce in
    the kernel)."""
    src = read("zlink-codegen/src/codegen.rs")
    m = re.search(r"fn is_rust_keyword\(s: &str\) -> bool \{\s*\[(.*?)\]\s*\.contains", src, re.S)
    kws = re.findall(r'"([A-Za-z]+)"', m.group(1))
    m = re.search(r"fn safe_ident\(name: &str\) -> String \{\s*if matches!\(name, ([^)]*)\)", src, re.S)
    notraw = re.findall(r'"([A-Za-z]+)"', m.group(1))
    out = ["def rustKeywords : List (List UInt8) := [" + ", ".join(bl(k) for k in kws) + "]",
           "def notRawKeywords : List (List UInt8) := [" + ", ".join(bl(k) for k in notraw) + "]"]
    rows = []
    for fn in ["type_to_rust", "type_to_rust_param", "type_to_rust_param_elem", "type_to_rust_output"]:
        fm = re.search(r"fn " + fn + r"\(ty: &Type\) -> Result<String> \{(.*?)\n\}\n", src, re.S)
        body = fm.group(1)
        for k in ["Bool", "Int", "Float", "String", "ForeignObject"]:
            km = re.search(r"Type::" + k + r' => "([^"]+)"\.to_string\(\)', body)
            rows.append(f"({bl(fn)}, {bl(k)}, {bl(km.group(1))})")
    out.append("def cgPrimRows : List (List UInt8 × List UInt8 × List UInt8) := [" + ", ".join(rows) + "]")
    return out


def introspect_tables():
    """zlink-core/src/introspect/type/{primitives,special,wrappers,collections}.rs: which IDL type every
    `Type` impl for a std type yields. Atoms: (rust type text, IDL variant); constructors: (rust type
    constructor with its fixed arguments, Optional | Array | Map | Transparent)."""
    base = "zlink-core/src/introspect/type/"
    atoms, ctors = [], []
    def norm(t):
        t = re.sub(r"\s+", "", t)
        return "unit" if t == "()" else t
    src = read(base + "primitives.rs")
    for m in re.finditer(r"impl_type!\(([^=]+)=>\s*idl::Type::(\w+)\)", src):
        for t in m.group(1).split(","):
            atoms.append((norm(t), m.group(2)))
    src = read(base + "special.rs")
    for m in re.finditer(r"impl Type for ([^{]+?) \{\s*const TYPE: &'static idl::Type<'static> = &idl::Type::(\w+)", src):
        atoms.append((norm(m.group(1)), m.group(2)))
    for f in ("wrappers.rs", "collections.rs"):
        src = read(base + f)
        for m in re.finditer(r"impl<(\w+): Type[^>]*> Type for ([^{]+?) \{\s*const TYPE: &'static idl::Type<'static> =\s*(&idl::Type::(\w+)\(TypeRef::new\(\1::TYPE\)\)|\1::TYPE);", src):
            var, ty = m.group(1), m.group(2)
            kind = m.group(4) or "Transparent"
            # the constructor: the type text with the generic argument (and lifetimes) removed
            c = re.sub(r"\s+", "", ty)
            c = c.replace("'_,", "").replace("<" + var + ">", "").replace("," + var + ">", ">").replace("[" + var + "]", "[]")
            ctors.append((c, kind))
    if len(atoms) < 20 or len(ctors) < 10:
        raise ValueError(f"introspection tables look wrong: {len(atoms)} atoms, {len(ctors)} constructors")
    out = ["def introAtoms : List (List UInt8 × List UInt8) := [" + ", ".join(f"({bl(a)}, {bl(b)})" for a, b in atoms) + "]",
           "def introCtors : List (List UInt8 × List UInt8) := [" + ", ".join(f"({bl(a)}, {bl(b)})" for a, b in ctors) + "]",
           "/-- the same tables, readable -/",
           "def introAtomsText : List (String × String) := [" + ", ".join(f'("{a}", "{b}")' for a, b in atoms) + "]",
           "def introCtorsText : List (String × String) := [" + ", ".join(f'("{a}", "{b}")' for a, b in ctors) + "]"]
    return out


def idl_tables():
    """zlink-core/src/idl/parse/mod.rs: the literals the parser matches - the primitive type names with the
    `Type` variant each maps to (in `alt` order), the member keywords, the punctuation - and
    zlink-core/src/idl/*.rs: the keyword each `Display` impl writes. (Comments and test modules are skipped.)"""
    src = read("zlink-core/src/idl/parse/mod.rs")
    src = src.split("#[cfg(test)]")[0]
    src = re.sub(r"//[^\n]*", "", src)
    prims = re.findall(r'literal\("([a-z]+)"\)\.map\(\|_\| Type::(\w+)\)', src)
    lits = re.findall(r'literal\("([^"]+)"\)', src)
    pn = {p for p, _ in prims}
    kws = sorted({l for l in lits if l.isalpha() and l not in pn})
    punct = sorted({l for l in lits if not l.isalpha()})
    if len(prims) < 3 or len(kws) < 3:
        raise ValueError(f"IDL literal tables look wrong: {prims} {kws}")
    disp = []
    for f, kw in (("interface.rs", "interface"), ("method.rs", "method"), ("error.rs", "error"), ("custom_object.rs", "type"), ("custom_enum.rs", "type")):
        body = read("zlink-core/src/idl/" + f).split("#[cfg(test)]")[0]
        m = re.search(r'write!\(\s*f,\s*"(' + kw + r' )\{', body)
        if not m:
            raise ValueError(f"Display keyword of idl/{f} not found")
        disp.append((f, m.group(1)))
    return ["def idlPrimitives : List (List UInt8 × List UInt8) := [" + ", ".join(f"({bl(a)}, {bl(b)})" for a, b in prims) + "]",
            "def idlKeywords : List (List UInt8) := [" + ", ".join(bl(k) for k in kws) + "]",
            "def idlPunct : List (List UInt8) := [" + ", ".join(bl(k) for k in punct) + "]",
            "def idlDisplayKeywords : List (List UInt8 × List UInt8) := [" + ", ".join(f"({bl(a)}, {bl(b)})" for a, b in disp) + "]"]


TABLES = [
    ("buffer_consts", [("source", buffer_consts)]),
    ("escape_table", [("source", escape_table), ("behaviour", escape_table_behaviour)]),
    ("service_api", [("source", service_api)]),
    ("call_flags", [("source", call_flags), ("behaviour", call_flags_behaviour)]),
    ("codegen_tables", [("source", codegen_tables), ("behaviour", codegen_tables_behaviour)]),
    # the impls may be written by hand or by any macro: what `<T as Type>::TYPE` *is* decides, the text is the fallback
    ("introspect_tables", [("behaviour", introspect_tables_behaviour), ("source", introspect_tables)]),
    ("idl_tables", [("source", idl_tables), ("behaviour", idl_tables_behaviour)]),
]

if __name__ == "__main__":
    sys.exit(main())
